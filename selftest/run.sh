#!/bin/bash
# usage: selftest/run.sh [name...] : applies each selftest/<PROP>-<name>.diff to a scratch worktree of /repo (outside /repo and /verif),
# runs ./check <PROP> against it and expects a VIOLATION (exit 1). The worktree is removed afterwards.
cd "$(dirname "$0")/.."
WT=/tmp/verif_selftest_wt_$$
rc=0
names=("$@"); [ ${#names[@]} -eq 0 ] && names=($(ls selftest/*.diff | xargs -n1 basename | sed 's/\.diff$//'))
for n in "${names[@]}"; do
  P=${n%%-*}
  rm -rf $WT; git -C /repo worktree prune; git -C /repo worktree add -q --detach $WT HEAD || exit 2
  if ! git -C $WT apply $PWD/selftest/$n.diff; then echo "$n: patch does not apply"; rc=2; git -C /repo worktree remove --force $WT; continue; fi
  out=$(VERIF_REPO=$WT VERIF_REPLAY_OUT=/tmp/verif_selftest_out_$$/replays VERIF_EVIDENCE_OUT=/tmp/verif_selftest_out_$$/evidence ./check $P --tier ${TIER:-quick} 2>&1); c=$?
  v=$(echo "$out" | grep -m1 -o "VIOLATION property=[A-Z0-9]* .*signature=[^ ]*" | sed 's/replay=[^ ]* //')
  if [ $c -eq 1 ]; then echo "$n: caught ($v)"; elif [ $c -eq 2 ]; then echo "$n: flagged as undecided (exit 2), no violation line: $(echo "$out" | grep -m1 -i "inconclusive\|requested cases\|UNDECIDED" | cut -c1-160)"; [ $rc -eq 0 ] && rc=3; else echo "$n: NOT caught (exit $c) $(echo "$out" | tail -1 | cut -c1-200)"; rc=1; fi
  git -C /repo worktree remove --force $WT
done
rm -rf /tmp/verif_selftest_out_$$
exit $rc
