// Package replay runs a generated stream through the real RedisOutput with a
// sequence of injected stops (target crash after the n-th request, or a
// graceful stop of the tool at that instant), restarting the tool after each
// one exactly as a process restart would (fresh RedisOutput, start-up
// bookkeeping, StartPoint, channel bytes from the returned offset). The
// resulting multi-run trace is judged by the oracles of C02, C07 and C09.
package replay

import (
	"context"
	"fmt"
	"strconv"
	"strings"
	"time"

	"verifharness/fake"
	"verifharness/gen"
	"verifharness/pbt"
)

type Case struct {
	Cfg   gen.OutCfg   `json:"cfg"`
	Cmds  []gen.SrcCmd `json:"cmds"`
	Sched gen.Schedule `json:"sched"`
	Start int64        `json:"start"`
}

type Fault struct {
	Mode string `json:"mode"` // "crash": target stops executing after At requests; "stop": tool stopped gracefully at that instant
	At   int    `json:"at"`
}

var SentinelKey = []byte("__verif_end")

var IDs = []string{"1111111111111111111111111111111111111111", "0000000000000000000000000000000000000000"}

// WithSentinel appends "SELECT <allowed db>; SET __verif_end 1".
func WithSentinel(c Case) []gen.SrcCmd {
	db := 0
	for d := 0; d < 16; d++ {
		black := false
		for _, b := range c.Cfg.DbBlacklist {
			if b == d {
				black = true
			}
		}
		if !black {
			db = d
			break
		}
	}
	out := append([]gen.SrcCmd{}, c.Cmds...)
	out = append(out, gen.SrcCmd{Name: "SELECT", Args: []pbt.B{[]byte(strconv.Itoa(db))}})
	out = append(out, gen.SrcCmd{Name: "SET", Args: []pbt.B{SentinelKey, []byte("1")}})
	// a database switch behind the sentinel makes the tool flush the batch that holds it at once (a SELECT is a
	// barrier in both checkpoint modes) instead of waiting for the batch / keep-alive ticker
	out = append(out, gen.SrcCmd{Name: "SELECT", Args: []pbt.B{[]byte(strconv.Itoa((db + 1) % 16))}})
	return out
}

// Run is one life of the tool process.
type Run struct {
	Fault       *Fault          `json:"fault,omitempty"`
	SpOffset    int64           `json:"sp_offset"` // what StartPoint returned
	SpRunID     string          `json:"sp_runid"`
	SpDb        int             `json:"sp_db"`
	FeedFrom    int64           `json:"feed_from"` // offset the channel served from
	Log         []fake.LogEntry `json:"-"`         // commands executed during this run (start-up included)
	SendLog     []fake.LogEntry `json:"-"`         // commands executed during Send only
	Reqs        []fake.Request  `json:"requests"`
	SendReqs    int             `json:"send_requests"` // requests processed during Send
	Crashed     bool            `json:"crashed"`
	Stopped     bool            `json:"stopped"`
	SawEnd      bool            `json:"saw_end"`
	SendErr     string          `json:"send_err"`
	EndSeq      int             `json:"end_seq"`
	StartUpErr  string          `json:"startup_err,omitempty"`
	NothingLeft bool            `json:"nothing_left,omitempty"`
	GoodOffsets bool            `json:"-"`
}

type Trace struct {
	Model  *gen.Model
	Cmds   []gen.SrcCmd
	Runs   []Run
	Inconc string
}

func isData(e fake.LogEntry) bool {
	switch e.Cmd {
	case "ping", "select", "info", "exists", "multi", "exec", "echo", "auth":
		return false
	}
	if len(e.Args) > 0 && gen.IsReservedKey(e.Args[0]) {
		return false
	}
	return true
}

// DataCmd is an executed business command.
type DataCmd struct {
	DB    int
	Cmd   string
	Args  [][]byte
	Group int
	Seq   int
}

func DataLog(log []fake.LogEntry) []DataCmd {
	var out []DataCmd
	for _, e := range log {
		if isData(e) {
			out = append(out, DataCmd{e.DB, e.Cmd, e.Args, e.Group, e.Seq})
		}
	}
	return out
}

// OffsetWrite is a write of <runid>_offset observed in the target log.
type OffsetWrite struct {
	Value int64
	DB    int
	Group int
	Seq   int
	Raw   string
}

// OffsetWrites extracts every value written to a "<runid>_offset" field of the checkpoint hash.
func OffsetWrites(log []fake.LogEntry) []OffsetWrite {
	var out []OffsetWrite
	for _, e := range log {
		if e.Cmd != "hset" || len(e.Args) < 3 || string(e.Args[0]) != gen.CheckpointName {
			continue
		}
		for i := 1; i+1 < len(e.Args); i += 2 {
			if strings.HasSuffix(string(e.Args[i]), "_offset") {
				v, err := strconv.ParseInt(string(e.Args[i+1]), 10, 64)
				if err != nil {
					v = -999
				}
				out = append(out, OffsetWrite{Value: v, DB: e.DB, Group: e.Group, Seq: e.Seq, Raw: string(e.Args[i+1])})
			}
		}
	}
	return out
}

// Execute runs the case with the given fault sequence; after the last fault one more run goes to the end sentinel.
func Execute(c Case, faults []Fault) *Trace { return ExecuteOpts(c, faults, Opts{}) }

// Opts tunes Execute.
type Opts struct {
	// IdleRunMs > 0: when a restart finds nothing left to replay the tool is still run against an idle source for this long, then stopped.
	IdleRunMs int
	// AfterEndIdleMs: keep the last run alive (idle source) this long after the sentinel.
	AfterEndIdleMs int
}

func ExecuteOpts(c Case, faults []Fault, o Opts) *Trace {
	gen.QuietLogs()
	cmds := WithSentinel(c)
	model := gen.Interpret(cmds, c.Cfg, c.Start, -1)
	tr := &Trace{Model: model, Cmds: cmds}
	srv := fake.NewServer()
	srv.GenericWrites = true
	defer srv.Close()
	ends := make([]int64, len(model.Ends))
	copy(ends, model.Ends)

	for ri := 0; ri <= len(faults); ri++ {
		var f *Fault
		if ri < len(faults) {
			f = &faults[ri]
		}
		run := Run{Fault: f}
		logBefore, reqBefore := srv.SnapshotLog()
		ro, err := gen.StartUp(c.Cfg, srv.Addr(), IDs)
		if err != nil {
			run.StartUpErr = err.Error()
			tr.Runs = append(tr.Runs, run)
			tr.Inconc = "startup failed: " + err.Error()
			return tr
		}
		sp, err := ro.StartPoint(context.Background(), IDs)
		if err != nil {
			tr.Inconc = "StartPoint failed: " + err.Error()
			return tr
		}
		run.SpOffset, run.SpRunID, run.SpDb = sp.Offset, sp.RunId, sp.DbId
		from := sp.Offset
		if sp.RunId == "?" || sp.Offset < 0 {
			from = c.Start // nothing stored: a full resynchronisation; the stream is served from its beginning
		}
		run.FeedFrom = from
		if from < c.Start || from > model.Ends[len(model.Ends)-1] {
			// not servable by any channel: judged by the oracles, no further run possible
			tr.Runs = append(tr.Runs, run)
			return tr
		}
		if from >= model.Ends[len(model.Ends)-2] {
			// (the last command is the SELECT behind the sentinel: a position at or behind the sentinel's end leaves no write to replay)
			// the stored position is the end of the stream: nothing is left to replay
			run.NothingLeft = true
			if o.IdleRunMs > 0 {
				logMid, _ := srv.SnapshotLog()
				res := gen.RunSend(ro, srv, gen.Feed{RunID: IDs[0], Start: from, Bytes: nil, Sentinel: SentinelKey, Timeout: time.Duration(o.IdleRunMs) * time.Millisecond, IdleOnly: true})
				if !srv.WaitIdle(3 * time.Second) {
					srv.DropConns()
				}
				logAfter, reqAfter := srv.SnapshotLog()
				run.Log = logAfter[len(logBefore):]
				run.SendLog = logAfter[len(logMid):]
				run.Reqs = reqAfter[len(reqBefore):]
				run.SendErr = fmt.Sprint(res.SendErr)
			}
			tr.Runs = append(tr.Runs, run)
			return tr
		}
		rel := int(from - c.Start)
		relEnds := []int{}
		for _, e := range ends {
			if int(e-c.Start) > rel {
				relEnds = append(relEnds, int(e-c.Start)-rel)
			}
		}
		logMid, _ := srv.SnapshotLog()
		feed := gen.Feed{RunID: IDs[0], Start: from, Bytes: model.Bytes[rel:], CmdEnds: relEnds, Sched: c.Sched, Sentinel: SentinelKey}
		if f == nil {
			feed.AfterEndIdleMs = o.AfterEndIdleMs
		}
		if f != nil {
			switch f.Mode {
			case "crash":
				srv.CrashAfter(f.At)
			case "stop":
				feed.StopAfterReq = f.At
			}
		}
		res := gen.RunSend(ro, srv, feed)
		srv.CrashAfter(0)
		// the process is gone: let the target drain what that process had already written to its sockets
		if !srv.WaitIdle(3 * time.Second) {
			srv.DropConns()
		}
		logAfter, reqAfter := srv.SnapshotLog()
		run.Log = logAfter[len(logBefore):]
		run.SendLog = logAfter[len(logMid):]
		run.Reqs = reqAfter[len(reqBefore):]
		run.SendReqs = len(run.Reqs) - countStartup(run.Reqs, len(logMid)-len(logBefore), logAfter, len(logBefore))
		run.Crashed, run.Stopped, run.SawEnd, run.EndSeq = res.Crashed, res.Stopped, res.SawEnd, res.EndSeq
		run.SendErr = fmt.Sprint(res.SendErr)
		tr.Runs = append(tr.Runs, run)
		if res.TimedOut {
			tail := run.Reqs
			if len(tail) > 6 {
				tail = tail[len(tail)-6:]
			}
			tr.Inconc = fmt.Sprintf("run %d did not finish within the time bound: faults=%s fed_from=%d stream_end=%d sawEnd=%v sendErr=%s tail=%s case=%s", ri, pbt.JSON(faults), from, model.Ends[len(model.Ends)-1], res.SawEnd, run.SendErr, pbt.JSON(tail), pbt.JSON(c))
			return tr
		}
		if res.Crashed {
			srv.Restart()
		}
		if f == nil || (!res.Crashed && !res.Stopped) {
			// the fault point lies beyond this run's request count: the run completed
			break
		}
	}
	return tr
}

func countStartup(reqs []fake.Request, startupExec int, all []fake.LogEntry, base int) int {
	// number of requests that belong to start-up = requests with seq <= seq of the last start-up log entry
	if startupExec == 0 {
		return 0
	}
	last := all[base+startupExec-1].Seq
	n := 0
	for _, r := range reqs {
		if r.Seq <= last {
			n++
		}
	}
	return n
}

// ExpectedIndexAfter returns the index into model.Expected of the first expected command whose source position lies after offset off.
func ExpectedIndexAfter(m *gen.Model, off int64) int {
	for i, e := range m.Expected {
		if m.Ends[e.Src] > off {
			return i
		}
	}
	return len(m.Expected)
}

// IsBoundary reports whether off is the stream start or the end of a source command.
func IsBoundary(m *gen.Model, off int64) bool {
	if off == m.Start {
		return true
	}
	for _, e := range m.Ends {
		if e == off {
			return true
		}
	}
	return false
}

// IdleWindow finds the idle gap (> minGapMs between two consecutive requests) in the Send phase of a run and returns the
// fault indexes (1-based request counts within Send) of the `width` requests that follow it; nil when there is no such gap.
func IdleWindow(run *Run, minGapMs int64, width int) []int {
	reqs := run.Reqs[len(run.Reqs)-run.SendReqs:]
	for i := 1; i < len(reqs); i++ {
		if (reqs[i].T-reqs[i-1].T)/1e6 >= minGapMs {
			var out []int
			for k := i; k <= i+width && k <= len(reqs); k++ {
				out = append(out, k)
			}
			return out
		}
	}
	return nil
}
