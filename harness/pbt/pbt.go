// Package pbt is the small amount of glue shared by every property: a
// per-property statistics collector (what was generated, how much of it was
// non-trivial, labelled classes, verbatim samples), violation recording with
// root-cause signatures, the read-only known-findings list, and replay files.
//
// Nothing in here makes a random choice: all randomness lives in rapid
// generators (or in the native fuzzer's byte input).
package pbt

import (
	"crypto/sha1"
	"encoding/hex"
	"encoding/json"
	"fmt"
	"os"
	"path/filepath"
	"sort"
	"strconv"
	"sync"
	"testing"
	"time"
)

// TB is the subset of testing.TB / *rapid.T the collector needs.
type TB interface {
	Fatalf(format string, args ...any)
	Helper()
}

type Violation struct {
	Property  string          `json:"property"`
	Signature string          `json:"signature"`
	Message   string          `json:"message"`
	Case      json.RawMessage `json:"case"`
	History   any             `json:"history,omitempty"`
	Replay    string          `json:"replay,omitempty"`
	caseLen   int
}

type Known struct {
	Property  string `json:"property"`
	Signature string `json:"signature"`
	What      string `json:"what"`
	Status    string `json:"status"` // open | fixed
	Commit    string `json:"commit,omitempty"`
}

type Collector struct {
	mu           sync.Mutex
	Property     string                `json:"property"`
	Evals        int64                 `json:"evaluations"`
	Cases        int64                 `json:"cases"`
	FaultPoints  int64                 `json:"fault_points"`
	Inconclusive int64                 `json:"inconclusive"`
	InconcNotes  []string              `json:"inconclusive_notes,omitempty"`
	nontriv      map[string]struct{}   // hashes
	NonTrivCount int64                 `json:"nontrivial_count"`
	NonTrivHash  []string              `json:"nontrivial_hashes,omitempty"`
	Classes      map[string]int64      `json:"classes"`
	Samples      []json.RawMessage     `json:"samples"`
	Violations   map[string]*Violation `json:"violations"`
	ExcludedKnow map[string]int64      `json:"excluded_known"`
	KnownHit     map[string]string     `json:"known_hit"` // sig -> what
	Notes        map[string]string     `json:"notes,omitempty"`
	sampleSeen   map[string]struct{}
}

var (
	regMu     sync.Mutex
	registry  = map[string]*Collector{}
	knownOnce sync.Once
	known     []Known
)

const maxHashes = 300000
const maxSamples = 5

func For(prop string) *Collector {
	regMu.Lock()
	defer regMu.Unlock()
	c := registry[prop]
	if c == nil {
		c = &Collector{Property: prop, nontriv: map[string]struct{}{}, Classes: map[string]int64{},
			Violations: map[string]*Violation{}, ExcludedKnow: map[string]int64{}, KnownHit: map[string]string{},
			Notes: map[string]string{}, sampleSeen: map[string]struct{}{}}
		registry[prop] = c
	}
	return c
}

func loadKnown() {
	knownOnce.Do(func() {
		p := os.Getenv("VERIF_KNOWN")
		if p == "" {
			return
		}
		b, err := os.ReadFile(p)
		if err != nil {
			return
		}
		_ = json.Unmarshal(b, &known)
	})
}

// KnownOpen reports whether (prop, sig) is listed as an open known finding.
func KnownOpen(prop, sig string) (string, bool) {
	loadKnown()
	for _, k := range known {
		if k.Property == prop && k.Signature == sig && k.Status == "open" {
			return k.What, true
		}
	}
	return "", false
}

func Tier() string {
	if t := os.Getenv("VERIF_TIER"); t != "" {
		return t
	}
	return "quick"
}

func Thorough() bool { return Tier() == "thorough" }

// EnvInt reads an integer knob the driver passes (sizes, counts).
func EnvInt(name string, def int) int {
	if v := os.Getenv(name); v != "" {
		if n, err := strconv.Atoi(v); err == nil {
			return n
		}
	}
	return def
}

func Hash(b []byte) string {
	h := sha1.Sum(b)
	return hex.EncodeToString(h[:8])
}

func JSON(v any) []byte {
	b, err := json.Marshal(v)
	if err != nil {
		return []byte(fmt.Sprintf("%q", fmt.Sprintf("unmarshalable: %v", err)))
	}
	return b
}

// Case marks the start of one generated case.
func (c *Collector) Case() { c.mu.Lock(); c.Cases++; c.mu.Unlock() }

// Eval counts executions of the code under test (cases x fault points).
func (c *Collector) Eval(n int) { c.mu.Lock(); c.Evals += int64(n); c.mu.Unlock() }

func (c *Collector) Fault(n int) { c.mu.Lock(); c.FaultPoints += int64(n); c.mu.Unlock() }

func (c *Collector) Class(name string) { c.mu.Lock(); c.Classes[name]++; c.mu.Unlock() }

func (c *Collector) ClassIf(cond bool, name string) {
	if cond {
		c.Class(name)
	}
}

func (c *Collector) Note(k, v string) { c.mu.Lock(); c.Notes[k] = v; c.mu.Unlock() }

// NonTrivial records that the case (canonical JSON) met the property's
// measured non-triviality rule; distinct cases are counted by hash.
func (c *Collector) NonTrivial(caseJSON []byte) {
	h := Hash(caseJSON)
	c.mu.Lock()
	defer c.mu.Unlock()
	if _, ok := c.nontriv[h]; ok {
		return
	}
	if len(c.nontriv) < maxHashes {
		c.nontriv[h] = struct{}{}
	}
	c.NonTrivCount++
	if len(c.Samples) < maxSamples && len(caseJSON) < 6000 {
		c.Samples = append(c.Samples, json.RawMessage(append([]byte(nil), caseJSON...)))
	}
}

// Sample stores a case verbatim even if it was not non-trivial (used so that
// evidence always contains at least one real case).
func (c *Collector) Sample(caseJSON []byte) {
	c.mu.Lock()
	defer c.mu.Unlock()
	h := Hash(caseJSON)
	if _, ok := c.sampleSeen[h]; ok {
		return
	}
	c.sampleSeen[h] = struct{}{}
	if len(c.Samples) < 2 && len(caseJSON) < 6000 {
		c.Samples = append(c.Samples, json.RawMessage(append([]byte(nil), caseJSON...)))
	}
}

func (c *Collector) Inconc(note string) {
	c.mu.Lock()
	c.Inconclusive++
	if len(c.InconcNotes) < 3 {
		c.InconcNotes = append(c.InconcNotes, note)
	}
	c.mu.Unlock()
}

// Report records an oracle failure. It returns true when the failure is a
// listed open known finding (the caller continues the search and must not
// fail the test), false when it is a genuine violation (the caller then
// fails the rapid property so that the case is shrunk).
func (c *Collector) Report(sig, msg string, caseJSON []byte, history any) (isKnown bool) {
	if what, ok := KnownOpen(c.Property, sig); ok {
		c.mu.Lock()
		c.ExcludedKnow[sig]++
		c.KnownHit[sig] = what
		c.mu.Unlock()
		return true
	}
	c.mu.Lock()
	defer c.mu.Unlock()
	v := c.Violations[sig]
	if v == nil || len(caseJSON) < v.caseLen {
		nv := &Violation{Property: c.Property, Signature: sig, Message: msg, Case: json.RawMessage(append([]byte(nil), caseJSON...)), History: history, caseLen: len(caseJSON)}
		c.Violations[sig] = nv
		// write the replay file right away: a later crash must not lose it
		nv.Replay = writeReplay(nv)
	}
	return false
}

// Fail = Report + t.Fatalf for genuine violations.
func (c *Collector) Fail(t TB, sig, msg string, caseJSON []byte, history any) {
	t.Helper()
	if c.Report(sig, msg, caseJSON, history) {
		return
	}
	t.Fatalf("VIOLATION %s [%s]: %s", c.Property, sig, msg)
}

func replayDir() string {
	if d := os.Getenv("VERIF_REPLAY_DIR"); d != "" {
		return d
	}
	return ""
}

func writeReplay(v *Violation) string {
	d := replayDir()
	if d == "" {
		return ""
	}
	dir := filepath.Join(d, v.Property)
	_ = os.MkdirAll(dir, 0o755)
	// one file per signature and shard: the smallest case seen wins
	name := fmt.Sprintf("%s-%s.json", sanitize(v.Signature), os.Getenv("VERIF_SHARD"))
	p := filepath.Join(dir, name)
	b, _ := json.MarshalIndent(v, "", " ")
	_ = os.WriteFile(p, b, 0o644)
	return p
}

func sanitize(s string) string {
	out := make([]byte, 0, len(s))
	for i := 0; i < len(s); i++ {
		ch := s[i]
		if (ch >= 'a' && ch <= 'z') || (ch >= 'A' && ch <= 'Z') || (ch >= '0' && ch <= '9') || ch == '-' || ch == '_' {
			out = append(out, ch)
		} else {
			out = append(out, '_')
		}
	}
	return string(out)
}

// LoadReplay reads $VERIF_REPLAY and returns the stored case JSON.
func LoadReplay() (*Violation, error) {
	p := os.Getenv("VERIF_REPLAY")
	if p == "" {
		return nil, fmt.Errorf("VERIF_REPLAY not set")
	}
	b, err := os.ReadFile(p)
	if err != nil {
		return nil, err
	}
	var v Violation
	if err := json.Unmarshal(b, &v); err != nil {
		return nil, err
	}
	return &v, nil
}

// Flush writes all collectors to $VERIF_STATS.
func Flush() {
	p := os.Getenv("VERIF_STATS")
	if p == "" {
		return
	}
	regMu.Lock()
	defer regMu.Unlock()
	out := map[string]*Collector{}
	for k, c := range registry {
		c.mu.Lock()
		c.NonTrivHash = c.NonTrivHash[:0]
		for h := range c.nontriv {
			c.NonTrivHash = append(c.NonTrivHash, h)
		}
		sort.Strings(c.NonTrivHash)
		out[k] = c
	}
	b, _ := json.Marshal(out)
	for _, c := range registry {
		c.mu.Unlock()
	}
	tmp := p + ".tmp"
	_ = os.WriteFile(tmp, b, 0o644)
	_ = os.Rename(tmp, p)
}

// Main is used as TestMain body by every property package.
func Main(m *testing.M) {
	start := time.Now()
	code := m.Run()
	_ = start
	Flush()
	os.Exit(code)
}

// TmpDir returns a fresh scratch directory under harness/.tmp (never /tmp).
func TmpDir(prefix string) string {
	base := os.Getenv("VERIF_TMP")
	if base == "" {
		base = filepath.Join(os.TempDir(), "verifharness")
	}
	_ = os.MkdirAll(base, 0o755)
	d, err := os.MkdirTemp(base, prefix)
	if err != nil {
		panic(err)
	}
	return d
}

// B is a byte string that marshals to a readable, lossless JSON string:
// printable ASCII stays as is, everything else (and the backslash) is \xNN.
type B []byte

func (b B) MarshalJSON() ([]byte, error) {
	out := make([]byte, 0, len(b)+2)
	out = append(out, '"')
	const hexd = "0123456789abcdef"
	for _, c := range b {
		if c >= 0x20 && c < 0x7f && c != '\\' && c != '"' {
			out = append(out, c)
		} else {
			out = append(out, '\\', '\\', 'x', hexd[c>>4], hexd[c&15])
		}
	}
	out = append(out, '"')
	return out, nil
}

func (b *B) UnmarshalJSON(data []byte) error {
	var s string
	if err := json.Unmarshal(data, &s); err != nil {
		return err
	}
	out := make([]byte, 0, len(s))
	for i := 0; i < len(s); i++ {
		if s[i] == '\\' && i+3 < len(s) && s[i+1] == 'x' {
			v, err := strconv.ParseUint(s[i+2:i+4], 16, 8)
			if err != nil {
				return err
			}
			out = append(out, byte(v))
			i += 3
		} else {
			out = append(out, s[i])
		}
	}
	*b = out
	return nil
}

func Bs(bs [][]byte) []B {
	out := make([]B, len(bs))
	for i, b := range bs {
		out[i] = B(b)
	}
	return out
}

func Raw(bs []B) [][]byte {
	out := make([][]byte, len(bs))
	for i, b := range bs {
		out[i] = []byte(b)
	}
	return out
}
