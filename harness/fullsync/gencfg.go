package fullsync

import "pgregory.net/rapid"

// GenCfg draws a replay configuration (policy replace).
func GenCfg(t *rapid.T) Cfg {
	c := Cfg{KeyExists: "replace"}
	c.Restore = rapid.IntRange(0, 2).Draw(t, "restore") != 0
	c.MaxBulk = rapid.SampledFrom([]int{512 * 1024 * 1024, 512 * 1024 * 1024, 40, 200, 2000}).Draw(t, "maxBulk")
	c.Parallel = rapid.IntRange(1, 8).Draw(t, "parallel")
	c.PipeSize = rapid.SampledFrom([]int{1, 2, 16, 1024}).Draw(t, "pipeSize")
	c.ChunkBytes = rapid.SampledFrom([]int{0, 0, 48, 64, 256, 4096}).Draw(t, "chunkBytes")
	c.TargetVer = rapid.SampledFrom([]string{"7.2.0", "7.2.0", "7.0.0", "6.2.0", "5.0.0", "4.0.0", "8.0.0"}).Draw(t, "targetVer")
	c.SnapOffset = rapid.Int64Range(1, 1<<40).Draw(t, "snapOffset")
	c.ReaderChunks = rapid.SliceOfN(rapid.SampledFrom([]int{1, 2, 7, 100, 4096}), 0, 3).Draw(t, "readerChunks")
	if rapid.IntRange(0, 2).Draw(t, "hasDbMap") == 0 {
		// injective map over 0..15 so that two source dbs never collapse into one target db
		perm := rapid.Permutation([]int{0, 1, 2, 3, 4, 5, 6, 7, 8, 9, 10, 11, 12, 13, 14, 15}).Draw(t, "dbPerm")
		c.DbMap = map[int]int{}
		for from, to := range perm {
			c.DbMap[from] = to
		}
	}
	// the bidirectional snapshot path: every key travels in its own MULTI / marker / value / EXEC
	c.Bisync = rapid.IntRange(0, 3).Draw(t, "bisync") == 0
	if c.Restore && !c.Bisync {
		c.BadFormatEvery = rapid.SampledFrom([]int{0, 0, 0, 0, 1, 2, 3}).Draw(t, "badFormatEvery")
	}
	// replay.replaceHashTag: keys lose their first '{' and first '}' on the way
	c.ReplaceHashTag = rapid.IntRange(0, 4).Draw(t, "replaceHashTag") == 0
	return c
}
