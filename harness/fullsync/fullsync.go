// Package fullsync drives the real snapshot replay (RedisOutput.Send on an RDB
// reader) against the interpreting double and compares the resulting keyspace
// with the dataset the snapshot was generated from. Shared by C03, C04, C20.
package fullsync

import (
	"bufio"
	"bytes"
	"context"
	"encoding/binary"
	"fmt"
	"io"
	"math"
	"sort"
	"strings"
	"time"

	"github.com/mgtv-tech/redis-GunYu/config"
	"github.com/mgtv-tech/redis-GunYu/pkg/rdb"
	"github.com/mgtv-tech/redis-GunYu/syncer"

	"verifharness/fake"
	"verifharness/gen"
	"verifharness/ref/crc64"
	"verifharness/ref/rdbgen"
)

// Cfg is the generated replay configuration.
type Cfg struct {
	Restore      bool        `json:"restore"`
	MaxBulk      int         `json:"maxBulk"` // MaxProtoBulkLen
	Parallel     int         `json:"parallel"`
	PipeSize     int         `json:"pipeSize"`
	DbMap        map[int]int `json:"dbMap,omitempty"`
	ChunkBytes   int         `json:"chunkBytes"` // split threshold set through the hook (0 = production value)
	TargetVer    string      `json:"targetVer"`
	KeyExists    string      `json:"keyExists"`
	Bisync       bool        `json:"bisync,omitempty"`
	SnapOffset   int64       `json:"snapOffset"`
	ReaderChunks []int       `json:"readerChunks,omitempty"` // fragment sizes of the snapshot reader
	// BadFormatEvery n > 0: the target refuses the RESTORE payload of every n-th snapshot key with "ERR Bad data format" (a server
	// that cannot load the serialization: sanitize-dump-payload, an encoding it does not know); the tool then replays the value
	// with native commands
	BadFormatEvery int `json:"badFormatEvery,omitempty"`
	// ReplaceHashTag (replay.replaceHashTag): the target key is the source key without its first '{' and its first '}'
	ReplaceHashTag bool `json:"replaceHashTag,omitempty"`
}

// TargetKey: the name a snapshot key has on the target.
func (c Cfg) TargetKey(k []byte) []byte {
	if !c.ReplaceHashTag {
		return k
	}
	t := bytes.Replace(append([]byte(nil), k...), []byte("{"), nil, 1)
	return bytes.Replace(t, []byte("}"), nil, 1)
}

// Normalize switches key rewriting off when two snapshot keys of one database would collapse into one target key (the reference
// could not tell which value the target has to end up with).
func (c *Cfg) Normalize(items []rdbgen.Item) {
	if !c.ReplaceHashTag {
		return
	}
	seen := map[string]bool{}
	for _, it := range items {
		id := fmt.Sprintf("%d/%s", it.DB, c.TargetKey([]byte(it.Key)))
		if seen[id] || len(c.TargetKey([]byte(it.Key))) == 0 {
			c.ReplaceHashTag = false
			return
		}
		seen[id] = true
	}
}

// RefuseRestores arms the double according to BadFormatEvery.
func RefuseRestores(c Cfg, srv *fake.Server, metas []rdbgen.Meta) {
	if c.BadFormatEvery <= 0 {
		return
	}
	srv.Lock()
	srv.BadFormatKeys = map[string]bool{}
	for i, m := range metas {
		if i%c.BadFormatEvery == 0 {
			srv.BadFormatKeys[string(c.TargetKey(m.Key))] = true
		}
	}
	srv.Unlock()
}

const RunID = "2222222222222222222222222222222222222222"

type Result struct {
	SendErr error
	Srv     *fake.Server
	Metas   []rdbgen.Meta
	Bytes   []byte
	Log     []fake.LogEntry
	Reqs    []fake.Request
	Dur     time.Duration
}

type fragReader struct {
	data  []byte
	frags []int
	i     int
	// optional: block instead of EOF when data is exhausted
	block <-chan struct{}
}

func (f *fragReader) Read(p []byte) (int, error) {
	if len(f.data) == 0 {
		if f.block != nil {
			<-f.block
		}
		return 0, io.EOF
	}
	n := len(p)
	if len(f.frags) > 0 {
		n = f.frags[f.i%len(f.frags)]
		f.i++
		if n > len(p) {
			n = len(p)
		}
	}
	if n > len(f.data) {
		n = len(f.data)
	}
	copy(p, f.data[:n])
	f.data = f.data[n:]
	return n, nil
}

func (c Cfg) MapDB(db int) int {
	if t, ok := c.DbMap[db]; ok {
		return t
	}
	return db
}

// OutputConfig builds the RedisOutputConfig for a snapshot replay.
func OutputConfig(c Cfg, addr string) syncer.RedisOutputConfig {
	oc := gen.OutputConfig(gen.OutCfg{BatchCmdCount: 50, BatchBufferSize: 65535, BatchTickerMs: 10, CpTickerMs: 1000, KeepaliveMs: 3000, Txn: true, Resume: true, TargetDb: -1, DbMap: c.DbMap}, addr, RunID)
	oc.ReplayRdbEnableRestore = c.Restore
	oc.MaxProtoBulkLen = c.MaxBulk
	oc.ReplayRdbParallel = c.Parallel
	oc.KeyExists = c.KeyExists
	oc.Redis.Version = c.TargetVer
	oc.BisyncEnabled = c.Bisync
	oc.ReplaceHashTag = c.ReplaceHashTag
	return oc
}

// Register makes the double understand the DUMP payloads of the dataset.
func Register(srv *fake.Server, metas []rdbgen.Meta) {
	for _, m := range metas {
		body := append([]byte{m.Type}, m.Ser...)
		srv.RestoreRegistry[string(body)] = m.Value
	}
}

// Run replays the snapshot bytes `data` (normally rdbgen.Build(file)) through a fresh RedisOutput.
func Run(c Cfg, srv *fake.Server, data []byte, ctx context.Context, blockAtEOF <-chan struct{}) (error, time.Duration) {
	gen.QuietLogs()
	if c.ChunkBytes > 0 {
		old := rdb.VerifSetMaxBinEntryBuffer(c.ChunkBytes)
		defer rdb.VerifSetMaxBinEntryBuffer(old)
	}
	oldPipe := config.RdbPipeSize
	if c.PipeSize > 0 {
		config.RdbPipeSize = c.PipeSize
	}
	defer func() { config.RdbPipeSize = oldPipe }()
	ro := syncer.NewRedisOutput(OutputConfig(c, srv.Addr()))
	fr := &fragReader{data: data, frags: c.ReaderChunks, block: blockAtEOF}
	rd := &gen.Reader{R: bufio.NewReaderSize(fr, 4096), LeftV: c.SnapOffset, RunID: RunID, Aof: false, SizeV: int64(len(data))}
	t0 := time.Now()
	err := ro.Send(ctx, rd)
	return err, time.Since(t0)
}

// Mismatch describes one difference between the target keyspace and the dataset.
type Mismatch struct {
	Sig string
	Msg string
}

func eqFloat(a, b float64) bool {
	return math.Float64bits(a) == math.Float64bits(b) || (a == 0 && b == 0)
}

// CompareValue compares a target value with the expected one. streamV1: the source format carries no entries_added/max_deleted/entries_read.
func CompareValue(got, want *fake.Value, enc int, targetGE7 bool) string {
	if got.Type != want.Type {
		return fmt.Sprintf("type %s, want %s", got.Type, want.Type)
	}
	switch want.Type {
	case "string":
		if !bytes.Equal(got.Str, want.Str) {
			return fmt.Sprintf("string %.60q, want %.60q", got.Str, want.Str)
		}
	case "list":
		if len(got.List) != len(want.List) {
			return fmt.Sprintf("list has %d elements, want %d", len(got.List), len(want.List))
		}
		for i := range want.List {
			if !bytes.Equal(got.List[i], want.List[i]) {
				return fmt.Sprintf("list element %d is %.60q, want %.60q", i, got.List[i], want.List[i])
			}
		}
	case "set":
		if len(got.Set) != len(want.Set) {
			return fmt.Sprintf("set has %d members, want %d", len(got.Set), len(want.Set))
		}
		for m := range want.Set {
			if !got.Set[m] {
				return fmt.Sprintf("set lacks member %.60q", m)
			}
		}
	case "zset":
		if len(got.ZSet) != len(want.ZSet) {
			return fmt.Sprintf("zset has %d members, want %d", len(got.ZSet), len(want.ZSet))
		}
		for m, s := range want.ZSet {
			g, ok := got.ZSet[m]
			if !ok {
				return fmt.Sprintf("zset lacks member %.60q", m)
			}
			if !eqFloat(g, s) {
				return fmt.Sprintf("zset member %.60q has score %v, want %v", m, g, s)
			}
		}
	case "hash":
		if len(got.Hash) != len(want.Hash) {
			return fmt.Sprintf("hash has %d fields, want %d", len(got.Hash), len(want.Hash))
		}
		for f, v := range want.Hash {
			g, ok := got.Hash[f]
			if !ok {
				return fmt.Sprintf("hash lacks field %.60q", f)
			}
			if !bytes.Equal(g, v) {
				return fmt.Sprintf("hash field %.60q is %.60q, want %.60q", f, g, v)
			}
		}
	case "stream":
		gs, ws := got.Stream, want.Stream
		if len(gs.Entries) != len(ws.Entries) {
			return fmt.Sprintf("stream has %d entries, want %d", len(gs.Entries), len(ws.Entries))
		}
		for i := range ws.Entries {
			if gs.Entries[i].ID != ws.Entries[i].ID {
				return fmt.Sprintf("stream entry %d has id %s, want %s", i, gs.Entries[i].ID, ws.Entries[i].ID)
			}
			if len(gs.Entries[i].Fields) != len(ws.Entries[i].Fields) {
				return fmt.Sprintf("stream entry %s has %d field/value items, want %d", ws.Entries[i].ID, len(gs.Entries[i].Fields), len(ws.Entries[i].Fields))
			}
			for k := range ws.Entries[i].Fields {
				if !bytes.Equal(gs.Entries[i].Fields[k], ws.Entries[i].Fields[k]) {
					return fmt.Sprintf("stream entry %s item %d is %.40q, want %.40q", ws.Entries[i].ID, k, gs.Entries[i].Fields[k], ws.Entries[i].Fields[k])
				}
			}
		}
		if gs.LastID != ws.LastID {
			return fmt.Sprintf("stream last id %s, want %s", gs.LastID, ws.LastID)
		}
		if targetGE7 && enc != rdbgen.TStream1 {
			if gs.EntriesAdded != ws.EntriesAdded {
				return fmt.Sprintf("stream entries_added %d, want %d", gs.EntriesAdded, ws.EntriesAdded)
			}
			if gs.MaxDeleted != ws.MaxDeleted {
				return fmt.Sprintf("stream max_deleted %s, want %s", gs.MaxDeleted, ws.MaxDeleted)
			}
		}
		if len(gs.Groups) != len(ws.Groups) {
			return fmt.Sprintf("stream has %d groups, want %d", len(gs.Groups), len(ws.Groups))
		}
		for i, wg := range ws.Groups {
			gg := gs.Groups[i]
			if gg.Name != wg.Name || gg.LastID != wg.LastID {
				return fmt.Sprintf("stream group %d is %s@%s, want %s@%s", i, gg.Name, gg.LastID, wg.Name, wg.LastID)
			}
			if targetGE7 && enc != rdbgen.TStream1 && gg.EntriesRead != wg.EntriesRead {
				return fmt.Sprintf("stream group %s entries_read %d, want %d", wg.Name, gg.EntriesRead, wg.EntriesRead)
			}
			gp := append([]fake.PelEntry{}, gg.Pel...)
			wp := append([]fake.PelEntry{}, wg.Pel...)
			sort.Slice(gp, func(a, b int) bool { return gp[a].ID.Less(gp[b].ID) })
			sort.Slice(wp, func(a, b int) bool { return wp[a].ID.Less(wp[b].ID) })
			if len(gp) != len(wp) {
				return fmt.Sprintf("stream group %s has %d pending entries, want %d", wg.Name, len(gp), len(wp))
			}
			for k := range wp {
				if gp[k] != wp[k] {
					return fmt.Sprintf("stream group %s pending entry %d is %+v, want %+v", wg.Name, k, gp[k], wp[k])
				}
			}
		}
	case "opaque":
		return "opaque"
	}
	return ""
}

// CheckRestorePayloads verifies oracle (1): every RESTORE the target accepted carries exactly type||serialization of that key plus a valid footer.
func CheckRestorePayloads(c Cfg, srv *fake.Server, metas []rdbgen.Meta) []Mismatch {
	var out []Mismatch
	byKey := map[string]rdbgen.Meta{}
	for _, m := range metas {
		byKey[fmt.Sprintf("%d/%s", c.MapDB(m.DB), c.TargetKey(m.Key))] = m
	}
	srv.Lock()
	calls := append([]fake.RestoreCall{}, srv.RestoreSeen...)
	srv.Unlock()
	for _, rc := range calls {
		m, ok := byKey[fmt.Sprintf("%d/%s", rc.DB, rc.Key)]
		if !ok {
			out = append(out, Mismatch{"restore-of-unknown-key", fmt.Sprintf("RESTORE of key %q in db %d which is not in the snapshot", rc.Key, rc.DB)})
			continue
		}
		p := rc.Payload
		if len(p) < 11 {
			out = append(out, Mismatch{"restore-payload-short", fmt.Sprintf("RESTORE payload of %q has %d bytes", rc.Key, len(p))})
			continue
		}
		body, foot := p[:len(p)-10], p[len(p)-10:]
		want := append([]byte{m.Type}, m.Ser...)
		if !bytes.Equal(body, want) {
			out = append(out, Mismatch{"restore-payload-differs-from-serialization", fmt.Sprintf("RESTORE payload of %q (type %d): %d bytes, the snapshot's serialization has %d bytes; first difference at %d", rc.Key, m.Type, len(body), len(want), firstDiff(body, want))})
		}
		ver := binary.LittleEndian.Uint16(foot[:2])
		if ver == 0 || ver > 13 {
			out = append(out, Mismatch{"restore-footer-version", fmt.Sprintf("RESTORE payload of %q has footer version %d", rc.Key, ver)})
		}
		if binary.LittleEndian.Uint64(foot[2:]) != crc64.Sum(p[:len(p)-8]) {
			out = append(out, Mismatch{"restore-footer-crc", fmt.Sprintf("RESTORE payload of %q has a wrong CRC64", rc.Key)})
		}
	}
	return out
}

func firstDiff(a, b []byte) int {
	n := len(a)
	if len(b) < n {
		n = len(b)
	}
	for i := 0; i < n; i++ {
		if a[i] != b[i] {
			return i
		}
	}
	return n
}

// CompareKeyspace verifies oracle (2) and (3): the target holds exactly the dataset (mapped databases), with the source's expiries.
// skip: keys (mappedDB/key) not to be compared. nowMs: the clock at comparison time.
func CompareKeyspace(c Cfg, ks *fake.Keyspace, metas []rdbgen.Meta, items []rdbgen.Item, nowMs int64, skip map[string]bool) []Mismatch {
	var out []Mismatch
	ge7 := c.TargetVer >= "7"
	want := map[string]bool{}
	for i, m := range metas {
		id := fmt.Sprintf("%d/%s", c.MapDB(m.DB), c.TargetKey(m.Key))
		want[id] = true
		if skip[id] {
			continue
		}
		e := ks.DBs[c.MapDB(m.DB)][string(c.TargetKey(m.Key))]
		past := m.ExpireAt != 0 && m.ExpireAt <= nowMs
		if past {
			if e != nil && (e.ExpireAt == 0 || e.ExpireAt > nowMs+60_000) {
				out = append(out, Mismatch{"expired-key-survives", fmt.Sprintf("key %q (type %d) expired at the source (%d ms ago) but exists on the target with expiry %d", m.Key, m.Type, nowMs-m.ExpireAt, e.ExpireAt)})
			}
			continue
		}
		if e == nil {
			out = append(out, Mismatch{"key-missing", fmt.Sprintf("key %q (db %d, rdb type %d) is missing on the target", m.Key, m.DB, m.Type)})
			continue
		}
		enc := int(m.Type)
		if d := CompareValue(e.V, m.Value, enc, ge7); d != "" {
			sig := "value-differs"
			if d == "opaque" {
				sig = "restore-payload-not-a-known-serialization"
			}
			out = append(out, Mismatch{fmt.Sprintf("%s:%s:rdbtype%d", sig, m.Value.Type, m.Type), fmt.Sprintf("key %q (db %d, rdb type %d, item %d): %s", m.Key, m.DB, m.Type, i, d)})
			continue
		}
		if m.ExpireAt == 0 && e.ExpireAt != 0 {
			out = append(out, Mismatch{"unexpected-expiry", fmt.Sprintf("key %q has no expiry at the source, target expiry %d", m.Key, e.ExpireAt)})
		}
		if m.ExpireAt != 0 {
			if e.ExpireAt == 0 {
				out = append(out, Mismatch{"expiry-lost", fmt.Sprintf("key %q (rdb type %d) expires at %d at the source, never on the target", m.Key, m.Type, m.ExpireAt)})
			} else if d := e.ExpireAt - m.ExpireAt; d > 60_000 || d < -60_000 {
				out = append(out, Mismatch{"expiry-differs", fmt.Sprintf("key %q expires at %d at the source, %d on the target (diff %d ms)", m.Key, m.ExpireAt, e.ExpireAt, d)})
			}
		}
	}
	for db := range ks.DBs {
		for k := range ks.DBs[db] {
			if gen.IsReservedKey([]byte(k)) || strings.HasPrefix(k, "redis-gunyu-bisync:") {
				continue // the tool's own bookkeeping (checkpoints; markers of the bidirectional path)
			}
			if !want[fmt.Sprintf("%d/%s", db, k)] {
				out = append(out, Mismatch{"extra-key", fmt.Sprintf("target db %d holds key %q which is not in the snapshot", db, k)})
			}
		}
	}
	_ = items
	return out
}

// NewBufReader wraps snapshot bytes for a ChannelReader.
func NewBufReader(data []byte) *bufio.Reader { return bufio.NewReaderSize(bytes.NewReader(data), 4096) }
