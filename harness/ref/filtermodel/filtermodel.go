// Package filtermodel is the reference semantics of the output filters as the
// property states them: command blacklist (case-insensitive, plus the
// administrative commands that are never forwarded), database blacklist,
// key acceptance by prefix lists and by membership of the key's HASH_SLOT in
// the UNION of the configured slot ranges, projection of DEL/UNLINK/MSET, and
// the reserved bookkeeping prefixes.
package filtermodel

import (
	"bytes"
	"strings"

	"verifharness/ref/hashslot"
	"verifharness/ref/keyspec"
)

type Config struct {
	SlotWhite   [][]uint16 `json:"slotWhite,omitempty"` // each entry: [s] or [l,r]; l>r is ignored
	SlotBlack   [][]uint16 `json:"slotBlack,omitempty"`
	PrefixWhite []string   `json:"prefixWhite,omitempty"`
	PrefixBlack []string   `json:"prefixBlack,omitempty"`
	DbBlack     []int      `json:"dbBlack,omitempty"`
	CmdBlack    []string   `json:"cmdBlack,omitempty"`
}

// Reserved: the tool's bookkeeping namespaces (checkpoints and hash, etcd-style namespace, bidirectional markers/journals).
var Reserved = []string{"redis-gunyu-checkpoint", "/redis-gunyu", "redis-gunyu-bisync"}

var Admin = map[string]bool{}

func init() {
	for _, c := range []string{"CLUSTER", "ASKING", "READONLY", "READWRITE", "AUTH", "CLIENT", "QUIT", "RESET", "ECHO",
		"COMMAND", "FLUSHALL", "FLUSHDB", "LATENCY", "MODULE", "PSYNC", "REPLCONF", "SAVE", "SHUTDOWN", "SLAVEOF",
		"SLOWLOG", "SWAPDB", "SYNC", "BGSAVE", "BGREWRITEAOF", "OPINFO", "LASTSAVE", "MONITOR", "ROLE", "DEBUG",
		"RESTORE-ASKING", "MIGRATE", "WAIT", "PFSELFTEST", "PFDEBUG"} {
		Admin[strings.ToLower(c)] = true
	}
}

func inRanges(rs [][]uint16, slot uint16) bool {
	for _, r := range rs {
		switch len(r) {
		case 1:
			if slot == r[0] {
				return true
			}
		case 2:
			if r[0] <= r[1] && slot >= r[0] && slot <= r[1] {
				return true
			}
		}
	}
	return false
}

func effective(rs [][]uint16) bool {
	// a list is "configured" as soon as it is non-empty (even if every range in it is ignored)
	return len(rs) > 0
}

func hasPrefix(ps []string, key []byte) bool {
	for _, p := range ps {
		if bytes.HasPrefix(key, []byte(p)) {
			return true
		}
	}
	return false
}

func (c Config) CmdRejected(cmd string) bool {
	lc := strings.ToLower(cmd)
	if Admin[lc] {
		return true
	}
	for _, b := range c.CmdBlack {
		if strings.ToLower(b) == lc {
			return true
		}
	}
	return false
}

func (c Config) DbRejected(db int) bool {
	for _, d := range c.DbBlack {
		if d == db {
			return true
		}
	}
	return false
}

func (c Config) PrefixRejected(key []byte) bool {
	if hasPrefix(Reserved, key) || hasPrefix(c.PrefixBlack, key) {
		return true
	}
	if len(c.PrefixWhite) > 0 && !hasPrefix(c.PrefixWhite, key) {
		return true
	}
	return false
}

func (c Config) SlotRejected(key []byte) bool {
	s := hashslot.Slot(key)
	if effective(c.SlotBlack) && inRanges(c.SlotBlack, s) {
		return true
	}
	if effective(c.SlotWhite) && !inRanges(c.SlotWhite, s) {
		return true
	}
	return false
}

func (c Config) KeyRejected(key []byte) bool { return c.PrefixRejected(key) || c.SlotRejected(key) }

// Apply returns what must reach the target for a key-addressed command of the reference table: the (possibly projected) arguments, or withheld.
func (c Config) Apply(cmd string, args [][]byte) (out [][]byte, withheld bool) {
	idx, ok := keyspec.Keys(cmd, args)
	if !ok {
		return args, false
	}
	kept := 0
	rej := make([]bool, len(idx))
	for i, k := range idx {
		if c.KeyRejected(args[k]) {
			rej[i] = true
		} else {
			kept++
		}
	}
	if kept == len(idx) {
		return args, false
	}
	if kept == 0 || !keyspec.PartialOK[strings.ToLower(cmd)] {
		return nil, true
	}
	switch strings.ToLower(cmd) {
	case "mset":
		for i, k := range idx {
			if !rej[i] {
				out = append(out, args[k], args[k+1])
			}
		}
	default:
		for i, k := range idx {
			if !rej[i] {
				out = append(out, args[k])
			}
		}
	}
	return out, false
}
