// Package crc64 is a bit-at-a-time CRC-64/Jones as used by Redis for RDB and
// DUMP payload footers (poly 0xad93d23594c935a9, reflected in/out, init 0).
// Check value: CRC64("123456789") = 0xe9c6d914c4b8d9ca.
package crc64

const polyRev = 0x95ac9329ac4bc9b5 // bit-reversed 0xad93d23594c935a9

func Update(crc uint64, b []byte) uint64 {
	for _, c := range b {
		crc ^= uint64(c)
		for i := 0; i < 8; i++ {
			if crc&1 != 0 {
				crc = (crc >> 1) ^ polyRev
			} else {
				crc >>= 1
			}
		}
	}
	return crc
}

func Sum(b []byte) uint64 { return Update(0, b) }
