package crc64

import "testing"

func TestCheckValue(t *testing.T) {
	if got := Sum([]byte("123456789")); got != 0xe9c6d914c4b8d9ca {
		t.Fatalf("got %x", got)
	}
}
