// Package resp: reference RESP2 multi-bulk encoder and a minimal reader used
// by the doubles. Independent of the repository's codec.
package resp

import (
	"bufio"
	"errors"
	"fmt"
	"io"
	"strconv"
)

// Cmd encodes one multi-bulk command.
func Cmd(args ...[]byte) []byte {
	out := make([]byte, 0, 16)
	out = append(out, '*')
	out = strconv.AppendInt(out, int64(len(args)), 10)
	out = append(out, '\r', '\n')
	for _, a := range args {
		out = append(out, '$')
		out = strconv.AppendInt(out, int64(len(a)), 10)
		out = append(out, '\r', '\n')
		out = append(out, a...)
		out = append(out, '\r', '\n')
	}
	return out
}

func CmdS(args ...string) []byte {
	bs := make([][]byte, len(args))
	for i, a := range args {
		bs[i] = []byte(a)
	}
	return Cmd(bs...)
}

var ErrProto = errors.New("resp: protocol error")

// ReadCmd reads one request (multi-bulk or inline) and returns its arguments
// and the number of bytes consumed.
func ReadCmd(r *bufio.Reader) ([][]byte, int, error) {
	n := 0
	line, err := r.ReadBytes('\n')
	n += len(line)
	if err != nil {
		return nil, n, err
	}
	if len(line) < 2 || line[len(line)-2] != '\r' {
		return nil, n, ErrProto
	}
	line = line[:len(line)-2]
	if len(line) == 0 {
		return [][]byte{}, n, nil
	}
	if line[0] != '*' {
		// inline
		var out [][]byte
		cur := []byte{}
		for _, c := range line {
			if c == ' ' {
				if len(cur) > 0 {
					out = append(out, cur)
					cur = []byte{}
				}
			} else {
				cur = append(cur, c)
			}
		}
		if len(cur) > 0 {
			out = append(out, cur)
		}
		return out, n, nil
	}
	cnt, err := strconv.Atoi(string(line[1:]))
	if err != nil || cnt < 0 {
		return nil, n, ErrProto
	}
	args := make([][]byte, 0, cnt)
	for i := 0; i < cnt; i++ {
		l, err := r.ReadBytes('\n')
		n += len(l)
		if err != nil {
			return nil, n, err
		}
		if len(l) < 3 || l[0] != '$' || l[len(l)-2] != '\r' {
			return nil, n, ErrProto
		}
		sz, err := strconv.Atoi(string(l[1 : len(l)-2]))
		if err != nil || sz < 0 {
			return nil, n, ErrProto
		}
		buf := make([]byte, sz+2)
		m, err := io.ReadFull(r, buf)
		n += m
		if err != nil {
			return nil, n, err
		}
		if buf[sz] != '\r' || buf[sz+1] != '\n' {
			return nil, n, ErrProto
		}
		args = append(args, buf[:sz])
	}
	return args, n, nil
}

// Reply values the doubles produce.
type Reply interface{ Append([]byte) []byte }

type Simple string
type Err string
type Int int64
type Bulk []byte
type Nil struct{}
type NilArray struct{}
type Array []Reply

func (s Simple) Append(b []byte) []byte { return append(append(append(b, '+'), s...), '\r', '\n') }
func (s Err) Append(b []byte) []byte    { return append(append(append(b, '-'), s...), '\r', '\n') }
func (i Int) Append(b []byte) []byte {
	return append(strconv.AppendInt(append(b, ':'), int64(i), 10), '\r', '\n')
}
func (s Bulk) Append(b []byte) []byte {
	b = append(strconv.AppendInt(append(b, '$'), int64(len(s)), 10), '\r', '\n')
	return append(append(b, s...), '\r', '\n')
}
func (Nil) Append(b []byte) []byte      { return append(b, "$-1\r\n"...) }
func (NilArray) Append(b []byte) []byte { return append(b, "*-1\r\n"...) }
func (a Array) Append(b []byte) []byte {
	b = append(strconv.AppendInt(append(b, '*'), int64(len(a)), 10), '\r', '\n')
	for _, e := range a {
		b = e.Append(b)
	}
	return b
}

func String(r Reply) string {
	switch v := r.(type) {
	case Simple:
		return "+" + string(v)
	case Err:
		return "-" + string(v)
	case Int:
		return fmt.Sprintf(":%d", int64(v))
	case Bulk:
		return fmt.Sprintf("$%q", []byte(v))
	case Nil:
		return "$nil"
	case NilArray:
		return "*nil"
	case Array:
		s := "["
		for i, e := range v {
			if i > 0 {
				s += " "
			}
			s += String(e)
		}
		return s + "]"
	}
	return "?"
}

// ReadReply reads one RESP2 reply and returns it in the notation of String (errors start with '-').
func ReadReply(r *bufio.Reader) (string, error) {
	line, err := r.ReadString('\n')
	if err != nil {
		return "", err
	}
	if len(line) < 3 {
		return "", fmt.Errorf("short reply line %q", line)
	}
	body := line[1 : len(line)-2]
	switch line[0] {
	case '+':
		return "+" + body, nil
	case '-':
		return "-" + body, nil
	case ':':
		return ":" + body, nil
	case '$':
		n, err := strconv.Atoi(body)
		if err != nil {
			return "", err
		}
		if n < 0 {
			return "$nil", nil
		}
		buf := make([]byte, n+2)
		if _, err := io.ReadFull(r, buf); err != nil {
			return "", err
		}
		return fmt.Sprintf("$%q", buf[:n]), nil
	case '*':
		n, err := strconv.Atoi(body)
		if err != nil {
			return "", err
		}
		if n < 0 {
			return "*nil", nil
		}
		s := "["
		for i := 0; i < n; i++ {
			e, err := ReadReply(r)
			if err != nil {
				return "", err
			}
			if i > 0 {
				s += " "
			}
			s += e
		}
		return s + "]", nil
	}
	return "", fmt.Errorf("unknown reply type %q", line)
}
