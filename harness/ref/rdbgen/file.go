package rdbgen

import (
	"encoding/binary"
	"fmt"
	"math"
	"sort"
	"strconv"

	"verifharness/fake"
	"verifharness/pbt"
	"verifharness/ref/crc64"
)

// RDB value type bytes.
const (
	TString     = 0
	TList       = 1
	TSet        = 2
	TZSet       = 3
	THash       = 4
	TZSet2      = 5
	THashZipmap = 9
	TListZL     = 10
	TSetIntset  = 11
	TZSetZL     = 12
	THashZL     = 13
	TQuicklist  = 14
	TStream1    = 15
	THashLP     = 16
	TZSetLP     = 17
	TQuicklist2 = 18
	TStream2    = 19
	TSetLP      = 20
	TStream3    = 21
	TStream4    = 26
)

// ZMember keeps generation order of sorted-set members (the on-disk order of compact encodings is by score).
type ZMember struct {
	Member pbt.B `json:"m"`
	Score  F     `json:"s"`
}

// F is a float64 that survives JSON (infinities are written as strings).
type F float64

func (f F) MarshalJSON() ([]byte, error) {
	return []byte(`"` + strconv.FormatFloat(float64(f), 'g', -1, 64) + `"`), nil
}

func (f *F) UnmarshalJSON(b []byte) error {
	s := string(b)
	if len(s) >= 2 && s[0] == '"' {
		s = s[1 : len(s)-1]
	}
	v, err := strconv.ParseFloat(s, 64)
	if err != nil {
		return err
	}
	*f = F(v)
	return nil
}

type HField struct {
	F pbt.B `json:"f"`
	V pbt.B `json:"v"`
}

type SEntry struct {
	Ms      uint64   `json:"ms"`
	Seq     uint64   `json:"seq"`
	Fields  []HField `json:"fields"`
	Deleted bool     `json:"deleted,omitempty"`
}

type SPel struct {
	Ms       uint64 `json:"ms"`
	Seq      uint64 `json:"seq"`
	Consumer int    `json:"consumer"` // index into Consumers
	Time     uint64 `json:"time"`
	Count    uint64 `json:"count"`
}

type SConsumer struct {
	Name   pbt.B  `json:"name"`
	Seen   uint64 `json:"seen"`
	Active uint64 `json:"active"`
}

type SGroup struct {
	Name        pbt.B       `json:"name"`
	LastMs      uint64      `json:"lastMs"`
	LastSeq     uint64      `json:"lastSeq"`
	EntriesRead uint64      `json:"entriesRead"`
	Consumers   []SConsumer `json:"consumers,omitempty"`
	Pel         []SPel      `json:"pel,omitempty"`
}

type SValue struct {
	Entries      []SEntry `json:"entries"`
	PerListpack  int      `json:"perListpack"` // entries per listpack node (>=1)
	LastMs       uint64   `json:"lastMs"`
	LastSeq      uint64   `json:"lastSeq"`
	MaxDelMs     uint64   `json:"maxDelMs"`
	MaxDelSeq    uint64   `json:"maxDelSeq"`
	EntriesAdded uint64   `json:"entriesAdded"`
	Groups       []SGroup `json:"groups,omitempty"`
	SameFields   bool     `json:"sameFields"` // entries whose field names equal the master entry use the SAMEFIELDS flag
	Producers    int      `json:"producers,omitempty"`
}

// Item is one key of the dataset with its encoding choice.
type Item struct {
	DB       int       `json:"db"`
	Key      pbt.B     `json:"key"`
	Kind     string    `json:"kind"` // string list set zset hash stream
	Enc      int       `json:"enc"`  // RDB type byte to use
	Str      pbt.B     `json:"str,omitempty"`
	Elems    []pbt.B   `json:"elems,omitempty"` // list elements / set members
	Z        []ZMember `json:"z,omitempty"`
	H        []HField  `json:"h,omitempty"`
	S        *SValue   `json:"s,omitempty"`
	ExpireAt int64     `json:"expireAt,omitempty"` // absolute ms; 0 none
	ExpSec   bool      `json:"expSec,omitempty"`   // written with the seconds opcode
	Idle     uint32    `json:"idle,omitempty"`
	Freq     uint8     `json:"freq,omitempty"`
	// encoding knobs
	StrMode    int  `json:"strMode,omitempty"`    // how string objects inside this value are written (StrRaw..StrAuto)
	BlobLZF    bool `json:"blobLzf,omitempty"`    // compact blob (ziplist/listpack/intset/zipmap) written LZF-compressed when possible
	UnknownLen bool `json:"unknownLen,omitempty"` // ziplist/listpack length field = 65535
	NodeSize   int  `json:"nodeSize,omitempty"`   // elements per quicklist node
	PlainOver  int  `json:"plainOver,omitempty"`  // quicklist2: elements longer than this become PLAIN nodes (0 = never)
	IntWidth   int  `json:"intWidth,omitempty"`   // intset minimum width
	ZmFree     int  `json:"zmFree,omitempty"`     // zipmap: free bytes after each value
	ZmBigLen   bool `json:"zmBigLen,omitempty"`   // zipmap: length byte 254
}

type File struct {
	Version  int     `json:"version"`
	Aux      bool    `json:"aux"`
	ResizeDB bool    `json:"resizedb"`
	SlotInfo bool    `json:"slotinfo,omitempty"`
	Checksum bool    `json:"checksum"`
	Items    []Item  `json:"items"`
	LuaAux   []pbt.B `json:"luaAux,omitempty"`
}

// Meta is what the writer produced for one key.
type Meta struct {
	DB       int
	Key      []byte
	Type     byte
	Ser      []byte      // serialization following the key (what DUMP would contain between type byte and footer)
	Value    *fake.Value // abstract value
	ExpireAt int64
	Start    int // byte offset in the file where this key's record (including its expiry/idle/freq opcodes) starts
	End      int // byte offset just after the serialization
}

func (it *Item) strMode() StrMode { return StrMode(it.StrMode) }

func blob(b []byte, lzf bool) []byte {
	if lzf {
		return Str(b, StrLZF)
	}
	return Str(b, StrRaw)
}

// Serialize returns the type byte, the serialization and the abstract value of an item.
func (it *Item) Serialize() (byte, []byte, *fake.Value) {
	sm := it.strMode()
	switch it.Kind {
	case "string":
		return TString, Str(it.Str, sm), &fake.Value{Type: "string", Str: append([]byte{}, it.Str...)}
	case "list":
		v := &fake.Value{Type: "list"}
		for _, e := range it.Elems {
			v.List = append(v.List, []byte(e))
		}
		raw := pbt.Raw(it.Elems)
		switch it.Enc {
		case TList:
			out := Len(uint64(len(raw)))
			for _, e := range raw {
				out = append(out, Str(e, sm)...)
			}
			return TList, out, v
		case TListZL:
			return TListZL, blob(Ziplist(raw, it.UnknownLen), it.BlobLZF), v
		case TQuicklist:
			nodes := chunk(raw, it.NodeSize)
			out := Len(uint64(len(nodes)))
			for _, n := range nodes {
				out = append(out, blob(Ziplist(n, it.UnknownLen), it.BlobLZF)...)
			}
			return TQuicklist, out, v
		default: // TQuicklist2
			type node struct {
				plain bool
				elems [][]byte
			}
			var nodes []node
			cur := node{}
			for _, e := range raw {
				if it.PlainOver > 0 && len(e) > it.PlainOver {
					if len(cur.elems) > 0 {
						nodes = append(nodes, cur)
						cur = node{}
					}
					nodes = append(nodes, node{plain: true, elems: [][]byte{e}})
					continue
				}
				cur.elems = append(cur.elems, e)
				if it.NodeSize > 0 && len(cur.elems) >= it.NodeSize {
					nodes = append(nodes, cur)
					cur = node{}
				}
			}
			if len(cur.elems) > 0 {
				nodes = append(nodes, cur)
			}
			out := Len(uint64(len(nodes)))
			for _, n := range nodes {
				if n.plain {
					out = append(out, Len(1)...)
					out = append(out, Str(n.elems[0], StrRaw)...)
				} else {
					out = append(out, Len(2)...)
					out = append(out, blob(Listpack(n.elems, false), it.BlobLZF)...)
				}
			}
			return TQuicklist2, out, v
		}
	case "set":
		v := &fake.Value{Type: "set", Set: map[string]bool{}}
		for _, e := range it.Elems {
			v.Set[string(e)] = true
		}
		raw := pbt.Raw(it.Elems)
		switch it.Enc {
		case TSetIntset:
			var ints []int64
			for _, e := range raw {
				n, _ := CanonInt(e)
				ints = append(ints, n)
			}
			sort.Slice(ints, func(a, b int) bool { return ints[a] < ints[b] })
			return TSetIntset, blob(Intset(ints, it.IntWidth), it.BlobLZF), v
		case TSetLP:
			return TSetLP, blob(Listpack(raw, false), it.BlobLZF), v
		default:
			out := Len(uint64(len(raw)))
			for _, e := range raw {
				out = append(out, Str(e, sm)...)
			}
			return TSet, out, v
		}
	case "zset":
		v := &fake.Value{Type: "zset", ZSet: map[string]float64{}}
		for _, z := range it.Z {
			v.ZSet[string(z.Member)] = float64(z.Score)
		}
		switch it.Enc {
		case TZSet, TZSet2:
			out := Len(uint64(len(it.Z)))
			for _, z := range it.Z {
				out = append(out, Str(z.Member, sm)...)
				if it.Enc == TZSet2 {
					out = append(out, Double(float64(z.Score))...)
				} else {
					out = append(out, FloatOld(float64(z.Score))...)
				}
			}
			return byte(it.Enc), out, v
		default:
			zs := append([]ZMember{}, it.Z...)
			sort.SliceStable(zs, func(a, b int) bool {
				if zs[a].Score != zs[b].Score {
					return zs[a].Score < zs[b].Score
				}
				return string(zs[a].Member) < string(zs[b].Member)
			})
			var elems [][]byte
			for _, z := range zs {
				elems = append(elems, []byte(z.Member), scoreText(float64(z.Score)))
			}
			if it.Enc == TZSetZL {
				return TZSetZL, blob(Ziplist(elems, it.UnknownLen), it.BlobLZF), v
			}
			return TZSetLP, blob(Listpack(elems, false), it.BlobLZF), v
		}
	case "hash":
		v := &fake.Value{Type: "hash", Hash: map[string][]byte{}}
		var elems [][]byte
		var pairs [][2][]byte
		for _, h := range it.H {
			v.Hash[string(h.F)] = append([]byte{}, h.V...)
			elems = append(elems, []byte(h.F), []byte(h.V))
			pairs = append(pairs, [2][]byte{h.F, h.V})
		}
		switch it.Enc {
		case THashZipmap:
			free := make([]int, len(pairs))
			for i := range free {
				free[i] = it.ZmFree
			}
			return THashZipmap, blob(Zipmap(pairs, free, it.ZmBigLen), it.BlobLZF), v
		case THashZL:
			return THashZL, blob(Ziplist(elems, it.UnknownLen), it.BlobLZF), v
		case THashLP:
			return THashLP, blob(Listpack(elems, false), it.BlobLZF), v
		default:
			out := Len(uint64(len(pairs)))
			for _, p := range pairs {
				out = append(out, Str(p[0], sm)...)
				out = append(out, Str(p[1], sm)...)
			}
			return THash, out, v
		}
	case "stream":
		return it.serializeStream()
	}
	panic("rdbgen: unknown kind " + it.Kind)
}

// scoreText: how ziplist/listpack sorted sets store the score (integer text when integral, else %.17g).
func scoreText(f float64) []byte {
	if math.IsInf(f, 1) {
		return []byte("inf")
	}
	if math.IsInf(f, -1) {
		return []byte("-inf")
	}
	if f == float64(int64(f)) && f > -1e15 && f < 1e15 {
		return []byte(strconv.FormatInt(int64(f), 10))
	}
	return []byte(strconv.FormatFloat(f, 'g', 17, 64))
}

func chunk(e [][]byte, n int) [][][]byte {
	if n <= 0 {
		n = 1 << 30
	}
	var out [][][]byte
	for len(e) > 0 {
		k := n
		if k > len(e) {
			k = len(e)
		}
		out = append(out, e[:k])
		e = e[k:]
	}
	return out
}

func itoa(n int64) []byte { return []byte(strconv.FormatInt(n, 10)) }

func sid(ms, seq uint64) []byte {
	b := make([]byte, 16)
	binary.BigEndian.PutUint64(b, ms)
	binary.BigEndian.PutUint64(b[8:], seq)
	return b
}

func ms8(v uint64) []byte {
	b := make([]byte, 8)
	binary.LittleEndian.PutUint64(b, v)
	return b
}

func (it *Item) serializeStream() (byte, []byte, *fake.Value) {
	s := it.S
	per := s.PerListpack
	if per <= 0 {
		per = 4
	}
	st := &fake.Stream{LastID: fake.StreamID{Ms: s.LastMs, Seq: s.LastSeq}, EntriesAdded: int64(s.EntriesAdded), MaxDeleted: fake.StreamID{Ms: s.MaxDelMs, Seq: s.MaxDelSeq}}
	live := 0
	var nodes [][]SEntry
	for i := 0; i < len(s.Entries); i += per {
		j := i + per
		if j > len(s.Entries) {
			j = len(s.Entries)
		}
		nodes = append(nodes, s.Entries[i:j])
	}
	out := Len(uint64(len(nodes)))
	for _, n := range nodes {
		master := n[0]
		var lp [][]byte
		cnt, del := 0, 0
		for _, e := range n {
			if e.Deleted {
				del++
			} else {
				cnt++
			}
		}
		lp = append(lp, itoa(int64(cnt)), itoa(int64(del)), itoa(int64(len(master.Fields))))
		for _, f := range master.Fields {
			lp = append(lp, []byte(f.F))
		}
		lp = append(lp, itoa(0))
		for _, e := range n {
			same := s.SameFields && len(e.Fields) == len(master.Fields)
			if same {
				for k := range e.Fields {
					if string(e.Fields[k].F) != string(master.Fields[k].F) {
						same = false
					}
				}
			}
			flags := int64(0)
			if e.Deleted {
				flags |= 1
			}
			if same {
				flags |= 2
			}
			lp = append(lp, itoa(flags), itoa(int64(e.Ms-master.Ms)), itoa(int64(e.Seq)-int64(master.Seq)))
			if same {
				for _, f := range e.Fields {
					lp = append(lp, []byte(f.V))
				}
				lp = append(lp, itoa(int64(len(e.Fields)+3)))
			} else {
				lp = append(lp, itoa(int64(len(e.Fields))))
				for _, f := range e.Fields {
					lp = append(lp, []byte(f.F), []byte(f.V))
				}
				lp = append(lp, itoa(int64(len(e.Fields)*2+4)))
			}
			if !e.Deleted {
				live++
				fe := fake.StreamEntry{ID: fake.StreamID{Ms: e.Ms, Seq: e.Seq}}
				for _, f := range e.Fields {
					fe.Fields = append(fe.Fields, []byte(f.F), []byte(f.V))
				}
				st.Entries = append(st.Entries, fe)
			}
		}
		out = append(out, Str(sid(master.Ms, master.Seq), StrRaw)...)
		out = append(out, blob(Listpack(lp, false), it.BlobLZF)...)
	}
	out = append(out, Len(uint64(live))...)
	out = append(out, Len(s.LastMs)...)
	out = append(out, Len(s.LastSeq)...)
	if it.Enc >= TStream2 {
		var fms, fseq uint64
		if len(st.Entries) > 0 {
			fms, fseq = st.Entries[0].ID.Ms, st.Entries[0].ID.Seq
		}
		out = append(out, Len(fms)...)
		out = append(out, Len(fseq)...)
		out = append(out, Len(s.MaxDelMs)...)
		out = append(out, Len(s.MaxDelSeq)...)
		out = append(out, Len(s.EntriesAdded)...)
	} else {
		st.EntriesAdded = int64(live)
		st.MaxDeleted = fake.StreamID{}
	}
	out = append(out, Len(uint64(len(s.Groups)))...)
	for _, g := range s.Groups {
		fg := &fake.StreamGroup{Name: string(g.Name), LastID: fake.StreamID{Ms: g.LastMs, Seq: g.LastSeq}, EntriesRead: int64(g.EntriesRead)}
		out = append(out, Str(g.Name, StrRaw)...)
		out = append(out, Len(g.LastMs)...)
		out = append(out, Len(g.LastSeq)...)
		if it.Enc >= TStream2 {
			out = append(out, Len(g.EntriesRead)...)
		}
		out = append(out, Len(uint64(len(g.Pel)))...)
		for _, p := range g.Pel {
			out = append(out, sid(p.Ms, p.Seq)...)
			out = append(out, ms8(p.Time)...)
			out = append(out, Len(p.Count)...)
			fg.Pel = append(fg.Pel, fake.PelEntry{ID: fake.StreamID{Ms: p.Ms, Seq: p.Seq}, Consumer: string(g.Consumers[p.Consumer].Name), Time: int64(p.Time), Count: int64(p.Count)})
		}
		out = append(out, Len(uint64(len(g.Consumers)))...)
		for ci, c := range g.Consumers {
			fg.Consumers = append(fg.Consumers, string(c.Name))
			out = append(out, Str(c.Name, StrRaw)...)
			out = append(out, ms8(c.Seen)...)
			if it.Enc >= TStream3 {
				out = append(out, ms8(c.Active)...)
			}
			var mine []SPel
			for _, p := range g.Pel {
				if p.Consumer == ci {
					mine = append(mine, p)
				}
			}
			out = append(out, Len(uint64(len(mine)))...)
			for _, p := range mine {
				out = append(out, sid(p.Ms, p.Seq)...)
			}
		}
		st.Groups = append(st.Groups, fg)
	}
	if it.Enc >= TStream4 {
		// IDMP state (Redis 8 stream v4): duration, max entries, producers{id, entries{iid, ms, seq}}, iids_added, iids_duplicates
		out = append(out, Len(100)...)
		out = append(out, Len(100)...)
		out = append(out, Len(uint64(s.Producers))...)
		for p := 0; p < s.Producers; p++ {
			out = append(out, Str([]byte(fmt.Sprintf("producer-%d", p)), StrRaw)...)
			out = append(out, Len(1)...)
			out = append(out, Str([]byte(fmt.Sprintf("iid-%d", p)), StrRaw)...)
			out = append(out, Len(uint64(p+1))...)
			out = append(out, Len(0)...)
		}
		out = append(out, Len(uint64(s.Producers))...)
		out = append(out, Len(0)...)
	}
	return byte(it.Enc), out, &fake.Value{Type: "stream", Stream: st}
}

// Build writes the snapshot and returns per-key metadata in file order.
func Build(f File) ([]byte, []Meta) {
	out := []byte(fmt.Sprintf("REDIS%04d", f.Version))
	if f.Aux && f.Version >= 7 {
		for _, kv := range [][2]string{{"redis-ver", "7.2.4"}, {"redis-bits", "64"}, {"ctime", "1700000000"}, {"used-mem", "1048576"}, {"repl-stream-db", "0"}, {"repl-id", "1111111111111111111111111111111111111111"}, {"repl-offset", "12345"}, {"aof-base", "0"}} {
			out = append(out, 0xFA)
			out = append(out, Str([]byte(kv[0]), StrRaw)...)
			out = append(out, Str([]byte(kv[1]), StrAuto)...)
		}
	}
	for _, l := range f.LuaAux {
		out = append(out, 0xFA)
		out = append(out, Str([]byte("lua"), StrRaw)...)
		out = append(out, Str(l, StrRaw)...)
	}
	// group by db in ascending order, preserving item order
	dbs := map[int][]int{}
	var order []int
	for i, it := range f.Items {
		if _, ok := dbs[it.DB]; !ok {
			order = append(order, it.DB)
		}
		dbs[it.DB] = append(dbs[it.DB], i)
	}
	sort.Ints(order)
	var metas []Meta
	for _, db := range order {
		out = append(out, 0xFE)
		out = append(out, Len(uint64(db))...)
		if f.ResizeDB && f.Version >= 7 {
			nexp := 0
			for _, i := range dbs[db] {
				if f.Items[i].ExpireAt != 0 {
					nexp++
				}
			}
			out = append(out, 0xFB)
			out = append(out, Len(uint64(len(dbs[db])))...)
			out = append(out, Len(uint64(nexp))...)
		}
		if f.SlotInfo && f.Version >= 12 {
			out = append(out, 0xF4)
			out = append(out, Len(uint64(db))...)
			out = append(out, Len(uint64(len(dbs[db])))...)
			out = append(out, Len(0)...)
		}
		for _, i := range dbs[db] {
			it := &f.Items[i]
			start := len(out)
			if it.ExpireAt != 0 {
				if it.ExpSec {
					b := []byte{0xFD, 0, 0, 0, 0}
					binary.LittleEndian.PutUint32(b[1:], uint32(it.ExpireAt/1000))
					out = append(out, b...)
				} else {
					b := []byte{0xFC, 0, 0, 0, 0, 0, 0, 0, 0}
					binary.LittleEndian.PutUint64(b[1:], uint64(it.ExpireAt))
					out = append(out, b...)
				}
			}
			if it.Idle != 0 && f.Version >= 9 {
				out = append(out, 0xF8)
				out = append(out, Len(uint64(it.Idle))...)
			}
			if it.Freq != 0 && f.Version >= 9 {
				out = append(out, 0xF9, it.Freq)
			}
			t, ser, val := it.Serialize()
			out = append(out, t)
			out = append(out, Str(it.Key, StrRaw)...)
			out = append(out, ser...)
			exp := it.ExpireAt
			if it.ExpSec {
				exp = (it.ExpireAt / 1000) * 1000
			}
			metas = append(metas, Meta{DB: db, Key: it.Key, Type: t, Ser: ser, Value: val, ExpireAt: exp, Start: start, End: len(out)})
		}
	}
	out = append(out, 0xFF)
	if f.Version >= 5 {
		if f.Checksum {
			c := crc64.Sum(out)
			b := make([]byte, 8)
			binary.LittleEndian.PutUint64(b, c)
			out = append(out, b...)
		} else {
			out = append(out, 0, 0, 0, 0, 0, 0, 0, 0)
		}
	}
	return out, metas
}

// MinVersion returns the lowest RDB version in which the item's type byte exists.
func MinVersion(enc int) int {
	switch enc {
	case TString, TList, TSet, TZSet, THash:
		return 1
	case THashZipmap, TListZL, TSetIntset, TZSetZL:
		return 2
	case THashZL:
		return 4
	case TQuicklist:
		return 7
	case TZSet2:
		return 8
	case TStream1:
		return 9
	case THashLP, TZSetLP, TQuicklist2, TStream2:
		return 10
	case TSetLP, TStream3:
		return 11
	case TStream4:
		return 13
	}
	return 13
}
