// Package rdbgen is an independent RDB *writer*: it turns an abstract dataset
// plus per-value encoding choices into snapshot bytes, for every on-disk
// encoding Redis 4.0 - 8.x emits, and reports for each key the type byte and
// the exact serialization it produced (the oracle for RESTORE payloads).
//
// Written from the Redis sources' format descriptions (rdb.c, ziplist.c,
// listpack.c, intset.c, zipmap.c, t_stream.c, lzf_c.c); it shares no code
// with the repository under test.
package rdbgen

import (
	"encoding/binary"
	"math"
	"strconv"
)

// ---------------------------------------------------------------- lengths and strings

func Len(n uint64) []byte {
	switch {
	case n < 1<<6:
		return []byte{byte(n)}
	case n < 1<<14:
		return []byte{0x40 | byte(n>>8), byte(n)}
	case n <= math.MaxUint32:
		b := make([]byte, 5)
		b[0] = 0x80
		binary.BigEndian.PutUint32(b[1:], uint32(n))
		return b
	default:
		b := make([]byte, 9)
		b[0] = 0x81
		binary.BigEndian.PutUint64(b[1:], n)
		return b
	}
}

// Len64 forces the 0x81 form (Redis uses it only for > 32 bit values; used for boundary tests of stream ids).
func LenAuto(n uint64) []byte { return Len(n) }

// StrMode selects how a string object is written.
type StrMode int

const (
	StrRaw  StrMode = iota // length prefixed
	StrInt                 // integer encoded when the content allows, else raw
	StrLZF                 // LZF compressed when longer than 20 bytes and it helps, else raw
	StrAuto                // what Redis does: int if possible, else LZF if > 20 bytes and smaller, else raw
)

// CanonInt reports whether s is the canonical decimal form of an int64 (what string2ll accepts).
func CanonInt(s []byte) (int64, bool) {
	if len(s) == 0 || len(s) > 20 {
		return 0, false
	}
	v, err := strconv.ParseInt(string(s), 10, 64)
	if err != nil {
		return 0, false
	}
	if strconv.FormatInt(v, 10) != string(s) {
		return 0, false
	}
	return v, true
}

func Str(s []byte, mode StrMode) []byte {
	if mode == StrInt || mode == StrAuto {
		if v, ok := CanonInt(s); ok && len(s) <= 11 {
			switch {
			case v >= math.MinInt8 && v <= math.MaxInt8:
				return []byte{0xC0, byte(int8(v))}
			case v >= math.MinInt16 && v <= math.MaxInt16:
				b := []byte{0xC1, 0, 0}
				binary.LittleEndian.PutUint16(b[1:], uint16(int16(v)))
				return b
			case v >= math.MinInt32 && v <= math.MaxInt32:
				b := []byte{0xC2, 0, 0, 0, 0}
				binary.LittleEndian.PutUint32(b[1:], uint32(int32(v)))
				return b
			}
		}
	}
	if (mode == StrLZF || mode == StrAuto) && len(s) > 20 {
		c := LZFCompress(s)
		if c != nil && len(c) < len(s) {
			out := []byte{0xC3}
			out = append(out, Len(uint64(len(c)))...)
			out = append(out, Len(uint64(len(s)))...)
			return append(out, c...)
		}
	}
	out := Len(uint64(len(s)))
	return append(out, s...)
}

// ---------------------------------------------------------------- LZF

// LZFCompress is a small greedy LZF compressor (format of lzf_c.c: literal runs
// with control byte < 32, back references with 3-bit length (7 = extended by
// one byte) and 13-bit offset). Returns nil when the input is too short.
func LZFCompress(in []byte) []byte {
	if len(in) < 4 {
		return nil
	}
	var out []byte
	lit := 0 // start of pending literal run
	flush := func(end int) {
		for lit < end {
			n := end - lit
			if n > 32 {
				n = 32
			}
			out = append(out, byte(n-1))
			out = append(out, in[lit:lit+n]...)
			lit += n
		}
	}
	tab := map[uint32]int{}
	i := 0
	for i+2 < len(in) {
		h := uint32(in[i])<<16 | uint32(in[i+1])<<8 | uint32(in[i+2])
		ref, ok := tab[h]
		tab[h] = i
		if ok && i-ref-1 < 1<<13 && i-ref > 0 {
			l := 3
			for i+l < len(in) && in[ref+l] == in[i+l] && l < 264 {
				l++
			}
			flush(i)
			off := i - ref - 1
			ln := l - 2
			if ln < 7 {
				out = append(out, byte(ln<<5)|byte(off>>8), byte(off))
			} else {
				out = append(out, byte(7<<5)|byte(off>>8), byte(ln-7), byte(off))
			}
			i += l
			lit = i
			continue
		}
		i++
	}
	flush(len(in))
	return out
}

// LZFDecompress is the reference decompressor (used only by this package's own unit check).
func LZFDecompress(in []byte, outlen int) []byte {
	out := make([]byte, 0, outlen)
	i := 0
	for i < len(in) {
		ctrl := int(in[i])
		i++
		if ctrl < 32 {
			out = append(out, in[i:i+ctrl+1]...)
			i += ctrl + 1
		} else {
			l := ctrl >> 5
			if l == 7 {
				l += int(in[i])
				i++
			}
			off := (ctrl&0x1f)<<8 | int(in[i])
			i++
			ref := len(out) - off - 1
			for k := 0; k < l+2; k++ {
				out = append(out, out[ref+k])
			}
		}
	}
	return out
}

// ---------------------------------------------------------------- ziplist

func zlEntry(prevlen int, s []byte) []byte {
	var e []byte
	if prevlen < 254 {
		e = append(e, byte(prevlen))
	} else {
		e = append(e, 0xFE, 0, 0, 0, 0)
		binary.LittleEndian.PutUint32(e[1:], uint32(prevlen))
	}
	if v, ok := CanonInt(s); ok && len(s) < 32 {
		switch {
		case v >= 0 && v <= 12:
			return append(e, 0xF1+byte(v))
		case v >= math.MinInt8 && v <= math.MaxInt8:
			return append(e, 0xFE, byte(int8(v)))
		case v >= math.MinInt16 && v <= math.MaxInt16:
			b := []byte{0xC0, 0, 0}
			binary.LittleEndian.PutUint16(b[1:], uint16(int16(v)))
			return append(e, b...)
		case v >= -(1<<23) && v <= (1<<23)-1:
			u := uint32(int32(v))
			return append(e, 0xF0, byte(u), byte(u>>8), byte(u>>16))
		case v >= math.MinInt32 && v <= math.MaxInt32:
			b := []byte{0xD0, 0, 0, 0, 0}
			binary.LittleEndian.PutUint32(b[1:], uint32(int32(v)))
			return append(e, b...)
		default:
			b := []byte{0xE0, 0, 0, 0, 0, 0, 0, 0, 0}
			binary.LittleEndian.PutUint64(b[1:], uint64(v))
			return append(e, b...)
		}
	}
	n := len(s)
	switch {
	case n < 1<<6:
		e = append(e, byte(n))
	case n < 1<<14:
		e = append(e, 0x40|byte(n>>8), byte(n))
	default:
		e = append(e, 0x80, 0, 0, 0, 0)
		binary.BigEndian.PutUint32(e[len(e)-4:], uint32(n))
	}
	return append(e, s...)
}

// Ziplist builds a ziplist blob. unknownLen stores 65535 in zllen (what Redis
// does once the list has held >= 65535 entries: the reader must then scan to the 0xFF terminator).
func Ziplist(elems [][]byte, unknownLen bool) []byte {
	body := []byte{}
	prev := 0
	tail := 10
	for _, s := range elems {
		e := zlEntry(prev, s)
		tail = 10 + len(body)
		body = append(body, e...)
		prev = len(e)
	}
	out := make([]byte, 10, 10+len(body)+1)
	binary.LittleEndian.PutUint32(out[0:], uint32(10+len(body)+1))
	binary.LittleEndian.PutUint32(out[4:], uint32(tail))
	n := len(elems)
	if unknownLen || n >= 65535 {
		n = 65535
	}
	binary.LittleEndian.PutUint16(out[8:], uint16(n))
	out = append(out, body...)
	return append(out, 0xFF)
}

// ---------------------------------------------------------------- listpack

func lpBacklen(l int) []byte {
	switch {
	case l <= 127:
		return []byte{byte(l)}
	case l < 16383:
		return []byte{byte(l >> 7), byte(l&127) | 128}
	case l < 2097151:
		return []byte{byte(l >> 14), byte((l>>7)&127) | 128, byte(l&127) | 128}
	case l < 268435455:
		return []byte{byte(l >> 21), byte((l>>14)&127) | 128, byte((l>>7)&127) | 128, byte(l&127) | 128}
	default:
		return []byte{byte(l >> 28), byte((l>>21)&127) | 128, byte((l>>14)&127) | 128, byte((l>>7)&127) | 128, byte(l&127) | 128}
	}
}

func lpElem(s []byte) []byte {
	var e []byte
	if v, ok := CanonInt(s); ok {
		switch {
		case v >= 0 && v <= 127:
			e = []byte{byte(v)}
		case v >= -4096 && v <= 4095:
			u := uint16(v)
			if v < 0 {
				u = uint16((1 << 13) + v)
			}
			e = []byte{0xC0 | byte(u>>8), byte(u)}
		case v >= math.MinInt16 && v <= math.MaxInt16:
			e = []byte{0xF1, 0, 0}
			binary.LittleEndian.PutUint16(e[1:], uint16(int16(v)))
		case v >= -(1<<23) && v <= (1<<23)-1:
			u := uint32(int32(v))
			e = []byte{0xF2, byte(u), byte(u >> 8), byte(u >> 16)}
		case v >= math.MinInt32 && v <= math.MaxInt32:
			e = []byte{0xF3, 0, 0, 0, 0}
			binary.LittleEndian.PutUint32(e[1:], uint32(int32(v)))
		default:
			e = []byte{0xF4, 0, 0, 0, 0, 0, 0, 0, 0}
			binary.LittleEndian.PutUint64(e[1:], uint64(v))
		}
	} else {
		n := len(s)
		switch {
		case n < 64:
			e = append([]byte{0x80 | byte(n)}, s...)
		case n < 4096:
			e = append([]byte{0xE0 | byte(n>>8), byte(n)}, s...)
		default:
			h := []byte{0xF0, 0, 0, 0, 0}
			binary.LittleEndian.PutUint32(h[1:], uint32(n))
			e = append(h, s...)
		}
	}
	return append(e, lpBacklen(len(e))...)
}

// Listpack builds a listpack blob; unknownLen stores 65535 as element count.
func Listpack(elems [][]byte, unknownLen bool) []byte {
	body := []byte{}
	for _, s := range elems {
		body = append(body, lpElem(s)...)
	}
	out := make([]byte, 6, 6+len(body)+1)
	binary.LittleEndian.PutUint32(out[0:], uint32(6+len(body)+1))
	n := len(elems)
	if unknownLen || n >= 65535 {
		n = 65535
	}
	binary.LittleEndian.PutUint16(out[4:], uint16(n))
	out = append(out, body...)
	return append(out, 0xFF)
}

// ---------------------------------------------------------------- intset

// Intset encodes sorted integers with the smallest width that holds all of them (2, 4 or 8), or minWidth if larger.
func Intset(vals []int64, minWidth int) []byte {
	w := 2
	for _, v := range vals {
		if v < math.MinInt32 || v > math.MaxInt32 {
			w = 8
		} else if (v < math.MinInt16 || v > math.MaxInt16) && w < 4 {
			w = 4
		}
	}
	if minWidth > w {
		w = minWidth
	}
	out := make([]byte, 8, 8+w*len(vals))
	binary.LittleEndian.PutUint32(out[0:], uint32(w))
	binary.LittleEndian.PutUint32(out[4:], uint32(len(vals)))
	for _, v := range vals {
		b := make([]byte, w)
		switch w {
		case 2:
			binary.LittleEndian.PutUint16(b, uint16(int16(v)))
		case 4:
			binary.LittleEndian.PutUint32(b, uint32(int32(v)))
		default:
			binary.LittleEndian.PutUint64(b, uint64(v))
		}
		out = append(out, b...)
	}
	return out
}

// ---------------------------------------------------------------- zipmap

func zmLen(n int) []byte {
	if n < 254 {
		return []byte{byte(n)}
	}
	b := []byte{0xFE, 0, 0, 0, 0}
	binary.LittleEndian.PutUint32(b[1:], uint32(n))
	return b
}

// Zipmap: <zmlen><len>key<len><free>value<free bytes>... 0xFF. free[i] unused bytes follow value i.
func Zipmap(pairs [][2][]byte, free []int, bigLen bool) []byte {
	out := []byte{}
	if len(pairs) >= 254 || bigLen {
		out = append(out, 254)
	} else {
		out = append(out, byte(len(pairs)))
	}
	for i, p := range pairs {
		out = append(out, zmLen(len(p[0]))...)
		out = append(out, p[0]...)
		out = append(out, zmLen(len(p[1]))...)
		f := 0
		if i < len(free) {
			f = free[i]
		}
		out = append(out, byte(f))
		out = append(out, p[1]...)
		for k := 0; k < f; k++ {
			out = append(out, 0xAA)
		}
	}
	return append(out, 0xFF)
}

// ---------------------------------------------------------------- doubles

// FloatOld: the pre-ZSET2 score format (length byte + ASCII; 253 nan, 254 +inf, 255 -inf).
func FloatOld(f float64) []byte {
	switch {
	case math.IsNaN(f):
		return []byte{253}
	case math.IsInf(f, 1):
		return []byte{254}
	case math.IsInf(f, -1):
		return []byte{255}
	}
	s := strconv.FormatFloat(f, 'g', 17, 64)
	return append([]byte{byte(len(s))}, s...)
}

func Double(f float64) []byte {
	b := make([]byte, 8)
	binary.LittleEndian.PutUint64(b, math.Float64bits(f))
	return b
}
