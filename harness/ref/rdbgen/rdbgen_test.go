package rdbgen

import (
	"bytes"
	"testing"
)

func TestLZFRoundTrip(t *testing.T) {
	for _, in := range [][]byte{
		bytes.Repeat([]byte("abc"), 100),
		bytes.Repeat([]byte{0}, 1000),
		[]byte("hello hello hello hello world world world world hello"),
		append(bytes.Repeat([]byte("x"), 300), bytes.Repeat([]byte("xy"), 300)...),
	} {
		c := LZFCompress(in)
		if c == nil {
			t.Fatal("nil")
		}
		out := LZFDecompress(c, len(in))
		if !bytes.Equal(in, out) {
			t.Fatalf("roundtrip failed for %d bytes", len(in))
		}
		if len(c) >= len(in) {
			t.Fatalf("not compressed: %d >= %d", len(c), len(in))
		}
	}
}

func TestZiplistHeader(t *testing.T) {
	z := Ziplist([][]byte{[]byte("a"), []byte("-1"), []byte("8388607")}, false)
	if int(z[0]) != len(z) || z[len(z)-1] != 0xFF || z[8] != 3 {
		t.Fatalf("%x", z)
	}
	// "-1" is int8 encoded (0xFE ff), 8388607 is int24
	if !bytes.Contains(z, []byte{0xFE, 0xFF}) || !bytes.Contains(z, []byte{0xF0, 0xFF, 0xFF, 0x7F}) {
		t.Fatalf("%x", z)
	}
	l := Listpack([][]byte{[]byte("-1"), []byte("abc")}, false)
	// -1 as 13 bit: 0xDF 0xFF backlen 2
	if !bytes.Contains(l, []byte{0xDF, 0xFF, 0x02, 0x83, 'a', 'b', 'c', 0x04, 0xFF}) {
		t.Fatalf("%x", l)
	}
}
