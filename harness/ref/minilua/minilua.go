// Package minilua interprets the small Lua subset the tool's lease scripts
// use: local assignments from KEYS[n] / ARGV[n] / redis.call(...) / literals,
// if / elseif / else / end with == and ~= comparisons, and return. Anything
// else makes Run return ErrUnsupported (the check then reports "cannot
// interpret", never a verdict).
package minilua

import (
	"errors"
	"fmt"
	"strconv"
	"strings"
)

var ErrUnsupported = errors.New("minilua: construct outside the supported subset")

// Value: nil (Lua nil), bool, float64 (number), string.
type Value interface{}

// Call executes a redis command and returns the Lua conversion of its reply
// (nil bulk -> false, integer -> number, bulk -> string, status -> string).
type Call func(args []string) (Value, error)

type tok struct {
	kind string // id num str sym eof
	s    string
}

func lex(src string) ([]tok, error) {
	var out []tok
	i := 0
	for i < len(src) {
		c := src[i]
		switch {
		case c == ' ' || c == '\t' || c == '\n' || c == '\r' || c == ';':
			i++
		case c == '-' && i+1 < len(src) && src[i+1] == '-':
			for i < len(src) && src[i] != '\n' {
				i++
			}
		case c == '\'' || c == '"':
			j := i + 1
			var sb strings.Builder
			for j < len(src) && src[j] != c {
				if src[j] == '\\' && j+1 < len(src) {
					j++
				}
				sb.WriteByte(src[j])
				j++
			}
			if j >= len(src) {
				return nil, ErrUnsupported
			}
			out = append(out, tok{"str", sb.String()})
			i = j + 1
		case c >= '0' && c <= '9':
			j := i
			for j < len(src) && (src[j] >= '0' && src[j] <= '9' || src[j] == '.') {
				j++
			}
			out = append(out, tok{"num", src[i:j]})
			i = j
		case c == '_' || (c >= 'a' && c <= 'z') || (c >= 'A' && c <= 'Z'):
			j := i
			for j < len(src) && (src[j] == '_' || src[j] == '.' || (src[j] >= 'a' && src[j] <= 'z') || (src[j] >= 'A' && src[j] <= 'Z') || (src[j] >= '0' && src[j] <= '9')) {
				j++
			}
			out = append(out, tok{"id", src[i:j]})
			i = j
		default:
			for _, s := range []string{"==", "~=", "(", ")", "[", "]", ",", "="} {
				if strings.HasPrefix(src[i:], s) {
					out = append(out, tok{"sym", s})
					i += len(s)
					goto next
				}
			}
			return nil, fmt.Errorf("%w: character %q", ErrUnsupported, c)
		next:
		}
	}
	out = append(out, tok{"eof", ""})
	return out, nil
}

type interp struct {
	t    []tok
	p    int
	vars map[string]Value
	keys []string
	argv []string
	call Call
	ret  Value
	done bool
}

func (in *interp) peek() tok { return in.t[in.p] }
func (in *interp) next() tok { t := in.t[in.p]; in.p++; return t }
func (in *interp) accept(kind, s string) bool {
	if in.t[in.p].kind == kind && in.t[in.p].s == s {
		in.p++
		return true
	}
	return false
}

// Run executes the script.
func Run(src string, keys, argv []string, call Call) (Value, error) {
	toks, err := lex(src)
	if err != nil {
		return nil, err
	}
	in := &interp{t: toks, vars: map[string]Value{}, keys: keys, argv: argv, call: call}
	if err := in.block(true, "eof"); err != nil {
		return nil, err
	}
	return in.ret, nil
}

// block executes (or, when exec is false, skips) statements until one of the terminators.
func (in *interp) block(exec bool, terms ...string) error {
	for {
		t := in.peek()
		for _, term := range terms {
			if (t.kind == "id" || t.kind == "eof") && (t.s == term || (term == "eof" && t.kind == "eof")) {
				return nil
			}
		}
		if err := in.stmt(exec && !in.done); err != nil {
			return err
		}
	}
}

func (in *interp) stmt(exec bool) error {
	t := in.next()
	if t.kind != "id" {
		return fmt.Errorf("%w: statement starting with %q", ErrUnsupported, t.s)
	}
	switch t.s {
	case "local":
		name := in.next()
		if name.kind != "id" || !in.accept("sym", "=") {
			return ErrUnsupported
		}
		v, err := in.expr(exec)
		if err != nil {
			return err
		}
		if exec {
			in.vars[name.s] = v
		}
		return nil
	case "return":
		v, err := in.expr(exec)
		if err != nil {
			return err
		}
		if exec {
			in.ret, in.done = v, true
		}
		return nil
	case "if":
		taken := false
		for {
			cond, err := in.expr(exec && !taken)
			if err != nil {
				return err
			}
			if !in.accept("id", "then") {
				return ErrUnsupported
			}
			run := exec && !taken && truthy(cond)
			if err := in.block(run, "elseif", "else", "end"); err != nil {
				return err
			}
			if run {
				taken = true
			}
			k := in.next()
			switch k.s {
			case "elseif":
				continue
			case "else":
				if err := in.block(exec && !taken, "end"); err != nil {
					return err
				}
				if !in.accept("id", "end") {
					return ErrUnsupported
				}
				return nil
			case "end":
				return nil
			}
			return ErrUnsupported
		}
	case "redis.call":
		in.p--
		_, err := in.expr(exec)
		return err
	default:
		// assignment to an existing variable
		if in.accept("sym", "=") {
			v, err := in.expr(exec)
			if err != nil {
				return err
			}
			if exec {
				in.vars[t.s] = v
			}
			return nil
		}
	}
	return fmt.Errorf("%w: statement %q", ErrUnsupported, t.s)
}

func truthy(v Value) bool {
	if v == nil {
		return false
	}
	if b, ok := v.(bool); ok {
		return b
	}
	return true
}

func (in *interp) expr(exec bool) (Value, error) {
	l, err := in.primary(exec)
	if err != nil {
		return nil, err
	}
	if in.accept("sym", "==") {
		r, err := in.primary(exec)
		if err != nil {
			return nil, err
		}
		return equal(l, r), nil
	}
	if in.accept("sym", "~=") {
		r, err := in.primary(exec)
		if err != nil {
			return nil, err
		}
		return !equal(l, r), nil
	}
	return l, nil
}

func equal(a, b Value) bool {
	// Lua: values of different types are never equal
	switch x := a.(type) {
	case nil:
		return b == nil
	case bool:
		y, ok := b.(bool)
		return ok && x == y
	case float64:
		y, ok := b.(float64)
		return ok && x == y
	case string:
		y, ok := b.(string)
		return ok && x == y
	}
	return false
}

func (in *interp) primary(exec bool) (Value, error) {
	t := in.next()
	switch t.kind {
	case "str":
		return t.s, nil
	case "num":
		f, err := strconv.ParseFloat(t.s, 64)
		if err != nil {
			return nil, ErrUnsupported
		}
		return f, nil
	case "id":
		switch t.s {
		case "false":
			return false, nil
		case "true":
			return true, nil
		case "nil":
			return nil, nil
		case "KEYS", "ARGV":
			if !in.accept("sym", "[") {
				return nil, ErrUnsupported
			}
			n := in.next()
			if n.kind != "num" || !in.accept("sym", "]") {
				return nil, ErrUnsupported
			}
			i, _ := strconv.Atoi(n.s)
			src := in.keys
			if t.s == "ARGV" {
				src = in.argv
			}
			if i < 1 || i > len(src) {
				return nil, nil
			}
			return src[i-1], nil
		case "redis.call":
			if !in.accept("sym", "(") {
				return nil, ErrUnsupported
			}
			var args []string
			for !in.accept("sym", ")") {
				v, err := in.expr(exec)
				if err != nil {
					return nil, err
				}
				switch x := v.(type) {
				case string:
					args = append(args, x)
				case float64:
					args = append(args, strconv.FormatFloat(x, 'f', -1, 64))
				default:
					if exec {
						return nil, fmt.Errorf("%w: redis.call argument of type %T", ErrUnsupported, v)
					}
					args = append(args, "")
				}
				in.accept("sym", ",")
			}
			if !exec {
				return nil, nil
			}
			return in.call(args)
		default:
			if v, ok := in.vars[t.s]; ok || !exec {
				return v, nil
			}
			return nil, nil
		}
	}
	return nil, fmt.Errorf("%w: expression token %q", ErrUnsupported, t.s)
}
