package minilua

import "testing"

func TestSubset(t *testing.T) {
	store := map[string]string{}
	call := func(a []string) (Value, error) {
		switch a[0] {
		case "GET":
			v, ok := store[a[1]]
			if !ok {
				return false, nil
			}
			return v, nil
		case "SET":
			store[a[1]] = a[2]
			return "OK", nil
		case "DEL":
			delete(store, a[1])
			return float64(1), nil
		}
		return float64(1), nil
	}
	src := `
local key = KEYS[1]
local value = ARGV[1]
local cur = redis.call('GET', key)
if cur == false then
    redis.call('SET', key, value, 'EX', ARGV[2])
    return 1
else
    if cur == value then
        redis.call('EXPIRE', key, ARGV[2])
        return 1
    else
        return 0
    end
end`
	v, err := Run(src, []string{"k"}, []string{"a", "10"}, call)
	if err != nil || v != float64(1) || store["k"] != "a" {
		t.Fatal(v, err, store)
	}
	v, _ = Run(src, []string{"k"}, []string{"b", "10"}, call)
	if v != float64(0) {
		t.Fatal(v)
	}
	v, _ = Run(src, []string{"k"}, []string{"a", "10"}, call)
	if v != float64(1) {
		t.Fatal(v)
	}
	if _, err := Run("for i=1,2 do end", nil, nil, call); err == nil {
		t.Fatal("expected unsupported")
	}
}
