// Package keyspec is the reference key-position table: for each command the
// positions of its key arguments, transcribed from the Redis command reference
// (COMMAND INFO first/last/step, or the documented numkeys layout). Only
// commands whose rule can be cited are listed; generators draw key-addressed
// commands from this table only.
package keyspec

import (
	"strconv"
	"strings"
)

// Spec: First/Last/Step are 1-based positions among the arguments after the
// command name; Last < 0 counts from the end (-1 = last argument). NumkeysAt
// > 0 marks "numkeys" commands: the count is the argument at that position and
// the keys follow it; Dest > 0 is an additional fixed key (STORE destination).
type Spec struct {
	First, Last, Step int
	NumkeysAt         int
	Dest              int
}

var one = Spec{1, 1, 1, 0, 0}

var Table = map[string]Spec{
	"set": one, "setnx": one, "setex": one, "psetex": one, "append": one, "setrange": one, "setbit": one, "getset": one, "getdel": one, "getex": one,
	"incr": one, "decr": one, "incrby": one, "decrby": one, "incrbyfloat": one,
	"rpush": one, "lpush": one, "rpushx": one, "lpushx": one, "linsert": one, "lset": one, "ltrim": one, "lrem": one, "rpop": one, "lpop": one,
	"sadd": one, "srem": one, "spop": one,
	"zadd": one, "zincrby": one, "zrem": one, "zremrangebyscore": one, "zremrangebyrank": one, "zremrangebylex": one, "zpopmin": one, "zpopmax": one,
	"hset": one, "hsetnx": one, "hmset": one, "hincrby": one, "hincrbyfloat": one, "hdel": one,
	"expire": one, "expireat": one, "pexpire": one, "pexpireat": one, "persist": one,
	"pfadd": one, "geoadd": one, "restore": one,
	"xadd": one, "xdel": one, "xtrim": one, "xack": one, "xclaim": one, "xsetid": one,
	"del": {1, -1, 1, 0, 0}, "unlink": {1, -1, 1, 0, 0},
	"mset": {1, -1, 2, 0, 0}, "msetnx": {1, -1, 2, 0, 0},
	"rename": {1, 2, 1, 0, 0}, "renamenx": {1, 2, 1, 0, 0}, "copy": {1, 2, 1, 0, 0},
	"rpoplpush": {1, 2, 1, 0, 0}, "lmove": {1, 2, 1, 0, 0}, "smove": {1, 2, 1, 0, 0},
	"sinterstore": {1, -1, 1, 0, 0}, "sunionstore": {1, -1, 1, 0, 0}, "sdiffstore": {1, -1, 1, 0, 0},
	"pfmerge": {1, -1, 1, 0, 0}, "bitop": {2, -1, 1, 0, 0},
	"zrangestore": {1, 2, 1, 0, 0}, "geosearchstore": {1, 2, 1, 0, 0},
	"zunionstore": {0, 0, 0, 2, 1}, "zinterstore": {0, 0, 0, 2, 1},
	"eval": {0, 0, 0, 2, 0}, "evalsha": {0, 0, 0, 2, 0},
}

// Custom: commands whose key positions depend on options, transcribed from the getkeys procedures of the Redis server
// (db.c: georadiusGetKeys, sortGetKeys). Only their WRITE forms (with a STORE destination) are generated.
var Custom = map[string]func(args [][]byte) ([]int, bool){
	"georadius":         geoRadiusKeys,
	"georadiusbymember": geoRadiusKeys,
	"sort":              sortKeys,
}

// Known reports whether the reference knows the command's key positions.
func Known(name string) bool {
	name = strings.ToLower(name)
	if _, ok := Custom[name]; ok {
		return true
	}
	_, ok := Table[name]
	return ok
}

// georadiusGetKeys: the key, plus the destination of STORE / STOREDIST; options are looked for from the 5th argument after the
// command name on (argv[5]); when several are given the LAST one is the destination (as in georadiusCommand itself).
func geoRadiusKeys(args [][]byte) ([]int, bool) {
	if len(args) == 0 {
		return nil, false
	}
	stored := -1
	for i := 4; i < len(args); i++ {
		if (strings.EqualFold(string(args[i]), "store") || strings.EqualFold(string(args[i]), "storedist")) && i+1 < len(args) {
			stored = i + 1
			i++
		}
	}
	if stored < 0 {
		return []int{0}, true
	}
	return []int{0, stored}, true
}

// sortGetKeys: the key, plus the destination of the LAST STORE; LIMIT skips two arguments, GET and BY one.
func sortKeys(args [][]byte) ([]int, bool) {
	if len(args) == 0 {
		return nil, false
	}
	stored := -1
	for i := 1; i < len(args); i++ {
		a := strings.ToLower(string(args[i]))
		switch {
		case a == "limit":
			i += 2
		case a == "get" || a == "by":
			i++
		case a == "store" && i+1 < len(args):
			stored = i + 1
		}
	}
	if stored < 0 {
		return []int{0}, true
	}
	return []int{0, stored}, true
}

// PartialOK: commands the property allows to be forwarded restricted to the accepted keys.
var PartialOK = map[string]bool{"del": true, "unlink": true, "mset": true}

// Keys returns the 0-based indexes of the key arguments, or ok=false when the command is not in the table or the layout is invalid.
func Keys(cmd string, args [][]byte) ([]int, bool) {
	if f, ok := Custom[strings.ToLower(cmd)]; ok {
		return f(args)
	}
	sp, ok := Table[strings.ToLower(cmd)]
	if !ok || len(args) == 0 {
		return nil, false
	}
	if sp.NumkeysAt > 0 {
		if sp.NumkeysAt-1 >= len(args) {
			return nil, false
		}
		n, err := strconv.Atoi(string(args[sp.NumkeysAt-1]))
		if err != nil || n <= 0 || sp.NumkeysAt+n > len(args) {
			return nil, false
		}
		var idx []int
		if sp.Dest > 0 {
			idx = append(idx, sp.Dest-1)
		}
		for i := 0; i < n; i++ {
			idx = append(idx, sp.NumkeysAt+i)
		}
		return idx, true
	}
	last := sp.Last - 1
	if sp.Last < 0 {
		last = len(args) + sp.Last
	}
	if last >= len(args) || last < sp.First-1 {
		return nil, false
	}
	var idx []int
	for i := sp.First - 1; i <= last; i += sp.Step {
		idx = append(idx, i)
	}
	return idx, len(idx) > 0
}
