// Package hashslot is an independent implementation of Redis Cluster's
// HASH_SLOT (cluster spec, "Keys hash tags"): bitwise CRC16/XMODEM (poly
// 0x1021, init 0, no reflection) of the bytes between the first '{' and the
// first following '}' when that substring is non-empty, else of the whole
// key, modulo 16384. Written from the specification, not from the repository.
package hashslot

// CRC16 is the bit-at-a-time XMODEM CRC (no table, deliberately naive).
func CRC16(b []byte) uint16 {
	var crc uint16
	for _, c := range b {
		crc ^= uint16(c) << 8
		for i := 0; i < 8; i++ {
			if crc&0x8000 != 0 {
				crc = (crc << 1) ^ 0x1021
			} else {
				crc <<= 1
			}
		}
	}
	return crc
}

// Tag returns the part of the key that is hashed.
func Tag(key []byte) []byte {
	s := -1
	for i, c := range key {
		if c == '{' {
			s = i
			break
		}
	}
	if s < 0 {
		return key
	}
	for e := s + 1; e < len(key); e++ {
		if key[e] == '}' {
			if e == s+1 {
				return key // empty tag: whole key
			}
			return key[s+1 : e]
		}
	}
	return key
}

func Slot(key []byte) uint16 { return CRC16(Tag(key)) % 16384 }
