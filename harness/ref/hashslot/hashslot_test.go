package hashslot

import "testing"

func TestSpec(t *testing.T) {
	if CRC16([]byte("123456789")) != 0x31C3 {
		t.Fatal("crc16 check value")
	}
	// examples from the cluster specification / redis-cli CLUSTER KEYSLOT
	cases := map[string]uint16{
		"foo": 12182, "bar": 5061, "hello": 866, "": 0,
		"{user1000}.following": Slot([]byte("user1000")),
		"foo{}{bar}":           Slot([]byte("foo{}{bar}")), // empty first tag => whole key
		"foo{{bar}}zap":        Slot([]byte("{bar")),
		"foo{bar}{zap}":        Slot([]byte("bar")),
	}
	for k, want := range cases {
		if got := Slot([]byte(k)); got != want {
			t.Fatalf("%q: got %d want %d", k, got, want)
		}
	}
	if CRC16([]byte("foo{}{bar}"))%16384 != Slot([]byte("foo{}{bar}")) {
		t.Fatal("whole key")
	}
}
