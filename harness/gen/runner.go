package gen

import (
	"bufio"
	"context"
	"fmt"
	"io"
	"sync"
	"time"

	"github.com/mgtv-tech/redis-GunYu/config"
	"github.com/mgtv-tech/redis-GunYu/pkg/log"
	"github.com/mgtv-tech/redis-GunYu/pkg/redis/checkpoint"
	"github.com/mgtv-tech/redis-GunYu/pkg/redis/client"
	usync "github.com/mgtv-tech/redis-GunYu/pkg/sync"
	"github.com/mgtv-tech/redis-GunYu/syncer"

	"verifharness/fake"
)

var logOnce sync.Once

// QuietLogs silences the tool's logger (once per process).
func QuietLogs() {
	logOnce.Do(func() {
		f := false
		_ = log.InitLog(config.LogConfig{LevelStr: "fatal", Handler: config.LogHandlerConfig{StdOut: true}, Caller: &f, Func: &f, ModuleName: &f})
	})
}

// Reader is the harness' ChannelReader: the role the cache plays towards the output.
type Reader struct {
	R      *bufio.Reader
	LeftV  int64
	RunID  string
	Aof    bool
	SizeV  int64
	OnStop func()
}

func (r *Reader) Start(wait usync.WaitCloser) {}
func (r *Reader) Left() int64                 { return r.LeftV }
func (r *Reader) RunId() string               { return r.RunID }
func (r *Reader) Size() int64                 { return r.SizeV }
func (r *Reader) IoReader() *bufio.Reader     { return r.R }
func (r *Reader) IsAof() bool                 { return r.Aof }
func (r *Reader) Close() {
	if r.OnStop != nil {
		r.OnStop()
	}
}

const CheckpointName = "redis-gunyu-checkpoint"

func RedisCfg(addr string) config.RedisConfig {
	return RedisCfgN([]string{addr})
}

// RedisCfgN: a standalone configuration with the topology filled in the way redis.FixTopology does.
func RedisCfgN(addrs []string) config.RedisConfig {
	c := config.RedisConfig{Addresses: addrs, Type: config.RedisTypeStandalone, Otype: config.RedisTypeStandalone, Version: "7.2.0",
		ClusterOptions: &config.RedisClusterOptions{HandleMoveErr: true, HandleAskErr: true}}
	var shards []*config.RedisClusterShard
	for _, a := range addrs {
		shards = append(shards, &config.RedisClusterShard{
			Slots:  config.RedisSlots{Ranges: []config.RedisSlotRange{{Left: 0, Right: 16383}}},
			Master: config.RedisNode{Address: a, Role: config.RedisRoleMaster, Health: "online"},
		})
	}
	c.SetClusterShards(shards)
	return c
}

// OutputConfig builds the RedisOutputConfig the way syncer.newOutput does.
func OutputConfig(c OutCfg, addr, runID string) syncer.RedisOutputConfig {
	oc := syncer.RedisOutputConfig{
		InputName:                  "verif-src",
		RunId:                      runID,
		CanTransaction:             c.Txn,
		Redis:                      RedisCfg(addr),
		EnableResumeFromBreakPoint: c.Resume,
		KeyExists:                  "replace",
		MaxProtoBulkLen:            512 * 1024 * 1024,
		TargetDb:                   c.TargetDb,
		TargetDbMap:                c.DbMap,
		BatchCmdCount:              c.BatchCmdCount,
		BatchTicker:                time.Duration(c.BatchTickerMs) * time.Millisecond,
		BatchBufferSize:            c.BatchBufferSize,
		KeepaliveTicker:            time.Duration(c.KeepaliveMs) * time.Millisecond,
		ReplayRdbParallel:          1,
		ReplayRdbEnableRestore:     true,
		ReplayMode:                 config.ReplayModeSync,
		UpdateCheckpointTicker:     time.Duration(c.CpTickerMs) * time.Millisecond,
		ReplayPipeline:             c.Pipeline,
		Stats:                      config.OutputStats{DisableLog: true, LogInterval: 5 * time.Second},
	}
	if oc.TargetDbMap == nil {
		oc.TargetDbMap = map[int]int{}
	}
	if c.Pipeline {
		oc.ReplayMode = config.ReplayModePipeline
	}
	oc.Filter = config.FilterConfig{DbBlacklist: c.DbBlacklist, CmdBlacklist: c.CmdBlacklist}
	if c.Resume {
		oc.CheckpointName = CheckpointName
	}
	return oc
}

// StartUp performs what syncer.newOutput does before constructing the output
// (checkpoint name / run id maintenance) and returns a fresh RedisOutput.
func StartUp(c OutCfg, addr string, ids []string) (*syncer.RedisOutput, error) {
	QuietLogs()
	oc := OutputConfig(c, addr, ids[0])
	if c.Resume {
		cli, err := client.NewRedis(oc.Redis)
		if err != nil {
			return nil, err
		}
		err = checkpoint.UpdateCheckpoint(cli, CheckpointName, ids)
		cli.Close()
		if err != nil {
			return nil, err
		}
	}
	return syncer.NewRedisOutput(oc), nil
}

// RunResult of one Send.
type RunResult struct {
	SendErr   error
	SawEnd    bool // the sentinel was executed at the target
	TimedOut  bool
	Crashed   bool
	FeedBytes int
	Stopped   bool
	EndSeq    int // request sequence number at which the sentinel was (first) executed
}

// Feed describes the bytes offered to one Send call.
type Feed struct {
	RunID    string
	Start    int64  // replication offset of Bytes[0]
	Bytes    []byte // stream from Start on (ends with the sentinel)
	CmdEnds  []int  // byte positions (relative) at which commands end: chunk size 0 means "up to the next command end"
	Sched    Schedule
	Sentinel []byte // key of the sentinel SET
	// SentinelCmd: command name of the sentinel (default "set"); its first argument is Sentinel.
	SentinelCmd string
	Timeout     time.Duration
	// StopAtCrash: as soon as the target crashes the tool is stopped (the process is considered dead).
	StopAtCrash bool
	// IdleOnly: nothing is fed; the run ends (gracefully) when Timeout expires, which is then not a time-out.
	IdleOnly bool
	// StopAfterReq > 0: the tool is stopped gracefully (context cancelled) once the target has processed that many requests during this Send.
	StopAfterReq int
	// AfterEndIdleMs: keep the Send running for this long after the sentinel was executed (idle source).
	AfterEndIdleMs int
}

// RunSend drives one RedisOutput.Send over an AOF reader fed according to the schedule.
func RunSend(ro *syncer.RedisOutput, srv *fake.Server, f Feed) RunResult {
	var res RunResult
	pr, pw := io.Pipe()
	ctx, cancel := context.WithCancel(context.Background())
	defer cancel()
	endSeen := make(chan struct{})
	crashSeen := make(chan struct{})
	var once, conce sync.Once
	srv.Lock()
	srv.OnExec = func(e *fake.LogEntry) {
		sc := f.SentinelCmd
		if sc == "" {
			sc = "set"
		}
		if e.Cmd == sc && len(e.Args) > 0 && string(e.Args[0]) == string(f.Sentinel) {
			once.Do(func() { res.EndSeq = e.Seq; close(endSeen) })
		}
	}
	srv.OnCrash = func() { conce.Do(func() { close(crashSeen) }) }
	stopSeen := make(chan struct{})
	if f.StopAfterReq > 0 {
		var sonce sync.Once
		cnt := 0
		srv.OnRequest = func(seq int, cmd string, args [][]byte) {
			cnt++
			if cnt >= f.StopAfterReq {
				sonce.Do(func() { res.Stopped = true; close(stopSeen) })
			}
		}
	}
	srv.Unlock()
	defer func() {
		srv.Lock()
		srv.OnExec = nil
		srv.OnCrash = nil
		srv.OnRequest = nil
		srv.Unlock()
	}()

	reader := &Reader{R: bufio.NewReaderSize(pr, 4096), LeftV: f.Start, RunID: f.RunID, Aof: true, SizeV: -1}
	sendDone := make(chan error, 1)
	go func() { sendDone <- ro.Send(ctx, reader) }()

	feedStop := make(chan struct{})
	feedDone := make(chan struct{})
	go func() {
		defer close(feedDone)
		sleep := func(ms int) bool {
			if ms <= 0 {
				return true
			}
			select {
			case <-time.After(time.Duration(ms) * time.Millisecond):
				return true
			case <-feedStop:
				return false
			}
		}
		if !sleep(f.Sched.LeadMs) {
			return
		}
		pos, ci, k := 0, 0, 0
		for pos < len(f.Bytes) {
			n := 0
			if len(f.Sched.Chunks) > 0 {
				n = f.Sched.Chunks[k%len(f.Sched.Chunks)]
			}
			end := pos + n
			if n == 0 {
				for ci < len(f.CmdEnds) && f.CmdEnds[ci] <= pos {
					ci++
				}
				if ci < len(f.CmdEnds) {
					end = f.CmdEnds[ci]
				} else {
					end = len(f.Bytes)
				}
			}
			if end > len(f.Bytes) {
				end = len(f.Bytes)
			}
			if _, err := pw.Write(f.Bytes[pos:end]); err != nil {
				return
			}
			res.FeedBytes = end
			pos = end
			p := f.Sched.pauseAfter(k)
			k++
			if pos < len(f.Bytes) && !sleep(p) {
				return
			}
		}
	}()

	timeout := f.Timeout
	if timeout == 0 {
		timeout = 30 * time.Second
	}
	timer := time.NewTimer(timeout)
	defer timer.Stop()
	var sendErr error
	sendReturned := false
	select {
	case <-endSeen:
		res.SawEnd = true
		if f.AfterEndIdleMs > 0 {
			select {
			case <-time.After(time.Duration(f.AfterEndIdleMs) * time.Millisecond):
			case sendErr = <-sendDone:
				sendReturned = true
			case <-crashSeen:
				res.Crashed = true
			}
		}
	case <-crashSeen:
		res.Crashed = true
	case <-stopSeen:
	case sendErr = <-sendDone:
		sendReturned = true
	case <-timer.C:
		res.TimedOut = !f.IdleOnly
	}
	// stop the tool (graceful stop after the sentinel, abrupt otherwise: the target no longer executes anything after a crash)
	cancel()
	close(feedStop)
	if !sendReturned {
		select {
		case sendErr = <-sendDone:
		case <-time.After(20 * time.Second):
			res.TimedOut = true
			sendErr = fmt.Errorf("Send did not return within 20s after cancellation")
		}
	}
	pw.CloseWithError(io.EOF)
	pr.Close()
	<-feedDone
	res.SendErr = sendErr
	if srv.Crashed() {
		res.Crashed = true
	}
	return res
}
