package gen

import (
	"bytes"
	"fmt"
	"math"
	"strconv"

	"pgregory.net/rapid"

	"verifharness/pbt"
	"verifharness/ref/rdbgen"
)

// integer boundary values of every ziplist / listpack / intset / string-int width
var intBounds = []int64{0, 1, 12, 13, 127, 128, -1, -128, -129, 4095, 4096, -4096, -4097, 32767, 32768, -32768, -32769,
	8388607, 8388608, -8388608, -8388609, 2147483647, 2147483648, -2147483648, -2147483649, math.MaxInt64, math.MinInt64, 255, 256, 65535, 65536}

// GenElem draws a container element: integers of every width and sign, texts, binary, empty, non-canonical integers, long strings.
func GenElem(big bool) *rapid.Generator[[]byte] {
	gens := []*rapid.Generator[[]byte]{
		rapid.Map(rapid.SampledFrom(intBounds), func(v int64) []byte { return []byte(strconv.FormatInt(v, 10)) }),
		rapid.Map(rapid.Int64(), func(v int64) []byte { return []byte(strconv.FormatInt(v, 10)) }),
		rapid.Map(rapid.Int64Range(-70000, 70000), func(v int64) []byte { return []byte(strconv.FormatInt(v, 10)) }),
		rapid.SampledFrom([][]byte{{}, []byte("007"), []byte("-0"), []byte("+5"), []byte("1.5"), []byte("1e3"), []byte(" 1"), []byte("9223372036854775808"), []byte("abc"), {0}, {0xff}, []byte("\r\n")}),
		rapid.SliceOfN(rapid.Byte(), 0, 20),
		rapid.SliceOfN(rapid.Byte(), 0, 20),
		rapid.Map(rapid.IntRange(21, 90), func(n int) []byte { return bytes.Repeat([]byte("ab"), n) }), // compressible, crosses the 6-bit / 64-byte string length classes
	}
	if big {
		gens = append(gens,
			rapid.Map(rapid.IntRange(250, 300), func(n int) []byte { return bytes.Repeat([]byte{'z'}, n) }),        // prevlen >= 254 for the next ziplist entry, zipmap 5-byte length
			rapid.Map(rapid.IntRange(4090, 4200), func(n int) []byte { return bytes.Repeat([]byte{'q', 1}, n/2) }), // listpack 12-bit -> 32-bit string header
			rapid.Map(rapid.IntRange(16380, 16500), func(n int) []byte { return bytes.Repeat([]byte{'w'}, n) }),    // ziplist 14-bit -> 32-bit, rdb 14-bit -> 32-bit length
		)
	}
	return rapid.OneOf(gens...)
}

func genDistinct(t *rapid.T, label string, n int, big bool) [][]byte {
	seen := map[string]bool{}
	var out [][]byte
	for i := 0; i < n*3 && len(out) < n; i++ {
		e := GenElem(big).Draw(t, label)
		if seen[string(e)] {
			continue
		}
		seen[string(e)] = true
		out = append(out, e)
	}
	return out
}

func genScore(t *rapid.T) float64 {
	switch rapid.IntRange(0, 6).Draw(t, "scoreKind") {
	case 0:
		return float64(rapid.Int64Range(-1000, 1000).Draw(t, "scoreInt"))
	case 1:
		return math.Inf(1)
	case 2:
		return math.Inf(-1)
	case 3:
		return float64(rapid.SampledFrom(intBounds).Draw(t, "scoreBound"))
	case 4:
		return rapid.Float64Range(-1e6, 1e6).Draw(t, "scoreFrac")
	case 5:
		return rapid.SampledFrom([]float64{0.1, -0.1, 1e-300, 1.7976931348623157e308, 3.141592653589793, 1e17, -1e17, 0}).Draw(t, "scoreSpecial")
	}
	return rapid.Float64().Draw(t, "scoreAny")
}

type DatasetOpts struct {
	MaxKeys  int
	MaxElems int
	Big      bool // include long elements
	NowMs    int64
	Kinds    []string
}

func genItem(t *rapid.T, o DatasetOpts) rdbgen.Item {
	kinds := o.Kinds
	if len(kinds) == 0 {
		kinds = []string{"string", "list", "set", "zset", "hash", "stream", "string", "list", "hash", "zset"}
	}
	it := rdbgen.Item{}
	it.Kind = rapid.SampledFrom(kinds).Draw(t, "kind")
	it.DB = rapid.SampledFrom([]int{0, 0, 0, 1, 2, 5, 15}).Draw(t, "db")
	it.StrMode = rapid.IntRange(0, 3).Draw(t, "strMode")
	it.BlobLZF = rapid.Bool().Draw(t, "blobLzf")
	it.UnknownLen = rapid.IntRange(0, 5).Draw(t, "unknownLen") == 0 // honoured by ziplist encodings only (see rdbgen: the property quantifies over ziplists with unknown length)
	n := rapid.IntRange(1, o.MaxElems).Draw(t, "nelems")
	switch it.Kind {
	case "string":
		it.Str = GenElem(o.Big).Draw(t, "str")
		it.Enc = rdbgen.TString
	case "list":
		for i := 0; i < n; i++ {
			it.Elems = append(it.Elems, GenElem(o.Big).Draw(t, "lelem"))
		}
		it.Enc = rapid.SampledFrom([]int{rdbgen.TList, rdbgen.TListZL, rdbgen.TQuicklist, rdbgen.TQuicklist2}).Draw(t, "enc")
		it.NodeSize = rapid.SampledFrom([]int{0, 1, 2, 5}).Draw(t, "nodeSize")
		it.PlainOver = rapid.SampledFrom([]int{0, 0, 30, 200}).Draw(t, "plainOver")
	case "set":
		if rapid.IntRange(0, 2).Draw(t, "intset") == 0 {
			seen := map[int64]bool{}
			for i := 0; i < n; i++ {
				v := rapid.OneOf(rapid.SampledFrom(intBounds), rapid.Int64Range(-40000, 40000), rapid.Int64()).Draw(t, "sint")
				if !seen[v] {
					seen[v] = true
					it.Elems = append(it.Elems, []byte(strconv.FormatInt(v, 10)))
				}
			}
			it.Enc = rapid.SampledFrom([]int{rdbgen.TSetIntset, rdbgen.TSetIntset, rdbgen.TSetLP, rdbgen.TSet}).Draw(t, "enc")
			it.IntWidth = rapid.SampledFrom([]int{0, 0, 4, 8}).Draw(t, "intWidth")
		} else {
			for _, e := range genDistinct(t, "selem", n, o.Big) {
				it.Elems = append(it.Elems, e)
			}
			it.Enc = rapid.SampledFrom([]int{rdbgen.TSet, rdbgen.TSetLP}).Draw(t, "enc")
		}
	case "zset":
		for _, e := range genDistinct(t, "zmember", n, o.Big) {
			it.Z = append(it.Z, rdbgen.ZMember{Member: e, Score: rdbgen.F(genScore(t))})
		}
		it.Enc = rapid.SampledFrom([]int{rdbgen.TZSet, rdbgen.TZSet2, rdbgen.TZSetZL, rdbgen.TZSetLP}).Draw(t, "enc")
	case "hash":
		for _, e := range genDistinct(t, "hfield", n, o.Big) {
			it.H = append(it.H, rdbgen.HField{F: e, V: GenElem(o.Big).Draw(t, "hval")})
		}
		it.Enc = rapid.SampledFrom([]int{rdbgen.THash, rdbgen.THash, rdbgen.THashZL, rdbgen.THashLP, rdbgen.THashZipmap}).Draw(t, "enc")
		it.ZmFree = rapid.SampledFrom([]int{0, 0, 1, 4}).Draw(t, "zmFree")
		it.ZmBigLen = rapid.IntRange(0, 3).Draw(t, "zmBigLen") == 0
	case "stream":
		it.Enc = rapid.SampledFrom([]int{rdbgen.TStream1, rdbgen.TStream2, rdbgen.TStream3, rdbgen.TStream4}).Draw(t, "enc")
		it.S = genStream(t, n, it.Enc)
	}
	switch rapid.IntRange(0, 5).Draw(t, "expiry") {
	case 0:
		it.ExpireAt = o.NowMs + rapid.Int64Range(3600_000, 400*24*3600_000).Draw(t, "future")
	case 1:
		it.ExpireAt = o.NowMs - rapid.Int64Range(3600_000, 10*365*24*3600_000).Draw(t, "past")
	}
	if it.ExpireAt != 0 {
		it.ExpSec = rapid.IntRange(0, 7).Draw(t, "expSec") == 0
	}
	if rapid.IntRange(0, 4).Draw(t, "hasIdle") == 0 {
		it.Idle = uint32(rapid.IntRange(1, 1_000_000).Draw(t, "idle"))
	} else if rapid.IntRange(0, 4).Draw(t, "hasFreq") == 0 {
		it.Freq = uint8(rapid.IntRange(1, 255).Draw(t, "freq"))
	}
	return it
}

func genStream(t *rapid.T, n int, enc int) *rdbgen.SValue {
	s := &rdbgen.SValue{}
	s.SameFields = rapid.Bool().Draw(t, "sameFields")
	s.PerListpack = rapid.IntRange(1, 5).Draw(t, "perListpack")
	if rapid.IntRange(0, 5).Draw(t, "emptyStream") == 0 {
		n = 0
	}
	ms := uint64(rapid.Int64Range(1, 1<<40).Draw(t, "firstMs"))
	seq := uint64(rapid.IntRange(0, 5).Draw(t, "firstSeq"))
	fieldPool := [][]byte{[]byte("f1"), []byte("f2"), []byte("temp"), {0xff, 0}, []byte("12")}
	var master []rdbgen.HField
	for i := 0; i < n; i++ {
		if rapid.Bool().Draw(t, "bumpMs") {
			ms += uint64(rapid.IntRange(1, 1000).Draw(t, "dms"))
			seq = uint64(rapid.IntRange(0, 3).Draw(t, "nseq"))
		} else {
			seq += uint64(rapid.IntRange(1, 3).Draw(t, "dseq"))
		}
		e := rdbgen.SEntry{Ms: ms, Seq: seq}
		if len(master) > 0 && rapid.Bool().Draw(t, "reuseFields") {
			for _, f := range master {
				e.Fields = append(e.Fields, rdbgen.HField{F: f.F, V: GenElem(false).Draw(t, "sval")})
			}
		} else {
			nf := rapid.IntRange(1, 3).Draw(t, "nfields")
			for k := 0; k < nf; k++ {
				e.Fields = append(e.Fields, rdbgen.HField{F: rapid.SampledFrom(fieldPool).Draw(t, "sfield"), V: GenElem(false).Draw(t, "sval")})
			}
		}
		if i%s.PerListpack == 0 {
			master = e.Fields
		}
		e.Deleted = rapid.IntRange(0, 4).Draw(t, "deleted") == 0
		s.Entries = append(s.Entries, e)
	}
	s.LastMs, s.LastSeq = ms, seq
	if n == 0 {
		s.LastMs, s.LastSeq = uint64(rapid.IntRange(0, 1000).Draw(t, "emptyLastMs")), uint64(rapid.IntRange(0, 3).Draw(t, "emptyLastSeq"))
	} else if rapid.Bool().Draw(t, "lastBeyond") {
		s.LastMs += uint64(rapid.IntRange(1, 100).Draw(t, "lastExtra"))
	}
	ndel := 0
	var live []rdbgen.SEntry
	for _, e := range s.Entries {
		if e.Deleted {
			ndel++
			s.MaxDelMs, s.MaxDelSeq = e.Ms, e.Seq
		} else {
			live = append(live, e)
		}
	}
	s.EntriesAdded = uint64(len(s.Entries) + rapid.IntRange(0, 3).Draw(t, "addedExtra"))
	if n == 0 && s.LastMs == 0 && s.LastSeq == 0 {
		s.EntriesAdded = 0
	}
	if enc == rdbgen.TStream1 {
		// the v1 format carries neither entries_added nor max_deleted
		s.MaxDelMs, s.MaxDelSeq = 0, 0
	}
	ng := rapid.IntRange(0, 2).Draw(t, "ngroups")
	for g := 0; g < ng; g++ {
		grp := rdbgen.SGroup{Name: []byte(fmt.Sprintf("g%d", g))}
		if len(live) > 0 && rapid.Bool().Draw(t, "gAtEntry") {
			e := live[rapid.IntRange(0, len(live)-1).Draw(t, "gEntry")]
			grp.LastMs, grp.LastSeq = e.Ms, e.Seq
		} else if rapid.Bool().Draw(t, "gAtLast") {
			grp.LastMs, grp.LastSeq = s.LastMs, s.LastSeq
		}
		grp.EntriesRead = uint64(rapid.IntRange(0, int(s.EntriesAdded)).Draw(t, "entriesRead"))
		nc := rapid.IntRange(0, 2).Draw(t, "nconsumers")
		for c := 0; c < nc; c++ {
			grp.Consumers = append(grp.Consumers, rdbgen.SConsumer{Name: []byte(fmt.Sprintf("c%d", c)), Seen: uint64(rapid.Int64Range(1, 1<<41).Draw(t, "seen")), Active: uint64(rapid.Int64Range(1, 1<<41).Draw(t, "active"))})
		}
		if nc > 0 {
			for _, e := range live {
				if rapid.IntRange(0, 2).Draw(t, "pending") == 0 {
					grp.Pel = append(grp.Pel, rdbgen.SPel{Ms: e.Ms, Seq: e.Seq, Consumer: rapid.IntRange(0, nc-1).Draw(t, "pelConsumer"),
						Time: uint64(rapid.Int64Range(1, 1<<41).Draw(t, "pelTime")), Count: uint64(rapid.IntRange(1, 70000).Draw(t, "pelCount"))})
				}
			}
		}
		s.Groups = append(s.Groups, grp)
	}
	if enc == rdbgen.TStream4 {
		s.Producers = rapid.IntRange(0, 2).Draw(t, "producers")
	}
	return s
}

// GenFile draws a snapshot description: distinct (db,key) items with every encoding, container opcodes, header version, checksum.
func GenFile(t *rapid.T, o DatasetOpts) rdbgen.File {
	if o.MaxKeys == 0 {
		o.MaxKeys = 12
	}
	if o.MaxElems == 0 {
		o.MaxElems = 12
	}
	f := rdbgen.File{}
	n := rapid.IntRange(1, o.MaxKeys).Draw(t, "nkeys")
	seen := map[string]bool{}
	minV := 6
	for i := 0; i < n; i++ {
		it := genItem(t, o)
		it.Key = rapid.OneOf(
			rapid.Map(rapid.IntRange(0, 30), func(i int) []byte { return []byte(fmt.Sprintf("key:%d", i)) }),
			rapid.SliceOfN(rapid.Byte(), 1, 12),
			rapid.SampledFrom([][]byte{[]byte("{tag}a"), []byte("{tag}b"), []byte("a{b}{c}"), {0}, []byte("k\r\n")}),
		).Draw(t, "key")
		id := fmt.Sprintf("%d/%s", it.DB, it.Key)
		if seen[id] || IsReservedKey(it.Key) {
			continue
		}
		seen[id] = true
		if v := rdbgen.MinVersion(it.Enc); v > minV {
			minV = v
		}
		f.Items = append(f.Items, it)
	}
	f.Version = rapid.IntRange(minV, 13).Draw(t, "version")
	f.Aux = rapid.Bool().Draw(t, "aux")
	f.ResizeDB = rapid.Bool().Draw(t, "resizedb")
	f.SlotInfo = rapid.IntRange(0, 5).Draw(t, "slotinfo") == 0
	f.Checksum = rapid.IntRange(0, 9).Draw(t, "checksum") != 0
	return f
}

var _ = pbt.Hash
