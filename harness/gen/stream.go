// Package gen holds the generators and the reference stream model shared by
// the replay properties (C01 C02 C07 C09 ...): an abstract replication
// stream, the output configuration, the delivery schedule, and the expected
// target log derived from them without using the code under test.
package gen

import (
	"bytes"
	"fmt"
	"strconv"
	"strings"

	"pgregory.net/rapid"

	"verifharness/pbt"
	"verifharness/ref/resp"
)

// SrcCmd is one command of the source's replication stream.
type SrcCmd struct {
	Name string  `json:"n"`
	Args []pbt.B `json:"a,omitempty"`
}

func (c SrcCmd) String() string {
	var sb strings.Builder
	sb.WriteString(c.Name)
	for _, a := range c.Args {
		if len(a) > 32 {
			fmt.Fprintf(&sb, " %q..(%d)", []byte(a[:32]), len(a))
		} else {
			fmt.Fprintf(&sb, " %q", []byte(a))
		}
	}
	return sb.String()
}

func (c SrcCmd) Lower() string { return strings.ToLower(c.Name) }

func (c SrcCmd) Encode() []byte {
	all := make([][]byte, 0, len(c.Args)+1)
	all = append(all, []byte(c.Name))
	for _, a := range c.Args {
		all = append(all, []byte(a))
	}
	return resp.Cmd(all...)
}

// OutCfg is the generated output configuration (respecting ReplayConfig.fix).
type OutCfg struct {
	BatchCmdCount   uint        `json:"batchCmdCount"`
	BatchBufferSize uint64      `json:"batchBufferSize"`
	BatchTickerMs   int         `json:"batchTickerMs"`
	CpTickerMs      int         `json:"cpTickerMs"`
	KeepaliveMs     int         `json:"keepaliveMs"`
	Txn             bool        `json:"txn"`
	Pipeline        bool        `json:"pipeline"`
	Resume          bool        `json:"resume"`
	DbMap           map[int]int `json:"dbMap,omitempty"`
	TargetDb        int         `json:"targetDb"`
	DbBlacklist     []int       `json:"dbBlacklist,omitempty"`
	CmdBlacklist    []string    `json:"cmdBlacklist,omitempty"`
}

// Schedule: the stream bytes are delivered in chunks; after chunk i the feeder sleeps PauseMs[i%len].
type Schedule struct {
	Chunks []int   `json:"chunks"` // chunk sizes, cycled; 0 = "rest of the current command"
	Pauses []Pause `json:"pauses"` // idle gaps: after chunk number At (counted over the whole delivery) sleep Ms
	LeadMs int     `json:"leadMs"` // pause before the first byte
}

type Pause struct {
	At int `json:"at"`
	Ms int `json:"ms"`
}

func (s Schedule) pauseAfter(k int) int {
	ms := 0
	for _, p := range s.Pauses {
		if p.At == k {
			ms += p.Ms
		}
	}
	return ms
}

// Reserved bookkeeping prefixes of the tool.
var reservedPrefixes = [][]byte{[]byte("redis-gunyu-checkpoint"), []byte("/redis-gunyu")}

func IsReservedKey(k []byte) bool {
	for _, p := range reservedPrefixes {
		if bytes.HasPrefix(k, p) {
			return true
		}
	}
	return false
}

// adminCmds: commands the tool documents as never forwarded (filter.NoRouteCmds), transcribed from the README/filter list.
var adminCmds = map[string]bool{}

func init() {
	for _, c := range []string{"CLUSTER", "ASKING", "READONLY", "READWRITE", "AUTH", "CLIENT", "QUIT", "RESET", "ECHO",
		"COMMAND", "FLUSHALL", "FLUSHDB", "LATENCY", "MODULE", "PSYNC", "REPLCONF", "SAVE", "SHUTDOWN", "SLAVEOF",
		"SLOWLOG", "SWAPDB", "SYNC", "BGSAVE", "BGREWRITEAOF", "OPINFO", "LASTSAVE", "MONITOR", "ROLE", "DEBUG",
		"RESTORE-ASKING", "MIGRATE", "WAIT", "PFSELFTEST", "PFDEBUG"} {
		adminCmds[strings.ToLower(c)] = true
	}
}

func IsAdmin(name string) bool { return adminCmds[strings.ToLower(name)] }

// Expect is one expected data command at the target.
type Expect struct {
	Src  int      // index into the source stream
	DB   int      // target database
	Cmd  string   // lower case
	Args [][]byte // arguments
	Txn  int      // source transaction number (-1 = outside MULTI/EXEC)
}

// Model is the result of interpreting a source stream under a configuration.
type Model struct {
	Expected []Expect
	Ends     []int64 // Ends[i] = offset at which source command i ends (start offset + bytes up to and including it)
	SrcDB    []int   // source DB in effect for command i (after processing it, for SELECT)
	TxnOf    []int   // source transaction id of command i (brackets included), -1 outside
	Names    []string // lower-case name of command i
	Bytes    []byte
	Start    int64
}

func (c OutCfg) MapDB(src int) int {
	if c.TargetDb != -1 {
		return c.TargetDb
	}
	if t, ok := c.DbMap[src]; ok {
		return t
	}
	return src
}

func (c OutCfg) dbBlack(db int) bool {
	for _, d := range c.DbBlacklist {
		if d == db {
			return true
		}
	}
	return false
}

func (c OutCfg) cmdBlack(name string) bool {
	for _, b := range c.CmdBlacklist {
		if strings.EqualFold(b, name) {
			return true
		}
	}
	return false
}

// Interpret computes the reference model of a stream that starts at offset
// `start` with source database `startSrcDB` in effect (-1 = unknown: the
// stream must then begin with SELECT, as a master's stream does after a resync).
func Interpret(cmds []SrcCmd, cfg OutCfg, start int64, startSrcDB int) *Model {
	m := &Model{Start: start}
	off := start
	db := startSrcDB
	txn, ntxn := -1, 0
	for i, c := range cmds {
		enc := c.Encode()
		m.Bytes = append(m.Bytes, enc...)
		off += int64(len(enc))
		m.Ends = append(m.Ends, off)
		name := c.Lower()
		m.Names = append(m.Names, name)
		switch name {
		case "select":
			if len(c.Args) == 1 {
				if n, err := strconv.Atoi(string(c.Args[0])); err == nil {
					db = n
				}
			}
			m.SrcDB = append(m.SrcDB, db)
			m.TxnOf = append(m.TxnOf, txn)
			continue
		case "multi":
			txn = ntxn
			ntxn++
			m.SrcDB = append(m.SrcDB, db)
			m.TxnOf = append(m.TxnOf, txn)
			continue
		case "exec":
			m.SrcDB = append(m.SrcDB, db)
			m.TxnOf = append(m.TxnOf, txn)
			txn = -1
			continue
		}
		m.SrcDB = append(m.SrcDB, db)
		m.TxnOf = append(m.TxnOf, txn)
		if name == "ping" || IsAdmin(name) || cfg.cmdBlack(name) {
			continue
		}
		if name == "publish" && len(c.Args) > 0 && strings.EqualFold(string(c.Args[0]), "__sentinel__:hello") {
			continue
		}
		if db >= 0 && cfg.dbBlack(db) {
			continue
		}
		if len(c.Args) > 0 && IsReservedKey(c.Args[0]) {
			continue // bookkeeping namespace: outside C01's comparison (C10 decides it)
		}
		tdb := 0
		if db >= 0 {
			tdb = cfg.MapDB(db)
		}
		m.Expected = append(m.Expected, Expect{Src: i, DB: tdb, Cmd: name, Args: pbt.Raw(c.Args), Txn: txn})
	}
	return m
}

// ---------------------------------------------------------------------------
// generators

var keyPool = []string{"a", "b", "k1", "k2", "user:{1}", "{tag}x", "{tag}y", "list", "z"}

func GenKey() *rapid.Generator[[]byte] {
	return rapid.OneOf(
		rapid.Map(rapid.SampledFrom(keyPool), func(s string) []byte { return []byte(s) }),
		rapid.SliceOfN(rapid.Byte(), 1, 12),
	)
}

func GenVal() *rapid.Generator[[]byte] {
	return rapid.OneOf(
		rapid.SliceOfN(rapid.Byte(), 0, 16),
		rapid.SampledFrom([][]byte{{}, []byte("\r\n"), {0}, {0xff, 0xfe, 0x00}, []byte("*1\r\n$4\r\nPING\r\n"), []byte("multi"), []byte("EXEC"), []byte("-1"), []byte("select")}),
		rapid.Map(rapid.IntRange(100, 3000), func(n int) []byte { return bytes.Repeat([]byte{0xab, 'x'}, n/2) }),
	)
}

type tmpl struct {
	name string
	gen  func(t *rapid.T) []pbt.B
}

func kv(t *rapid.T, names ...string) []pbt.B {
	out := []pbt.B{}
	for _, n := range names {
		switch n {
		case "k":
			out = append(out, GenKey().Draw(t, "key"))
		case "v":
			out = append(out, GenVal().Draw(t, "val"))
		case "n":
			out = append(out, []byte(strconv.Itoa(rapid.IntRange(-5, 100000).Draw(t, "num"))))
		case "ms":
			out = append(out, []byte(strconv.FormatInt(rapid.Int64Range(1, 1<<41).Draw(t, "ms"), 10)))
		case "id":
			out = append(out, []byte(fmt.Sprintf("%d-%d", rapid.IntRange(1, 1000).Draw(t, "idms"), rapid.IntRange(0, 9).Draw(t, "idseq"))))
		default:
			out = append(out, []byte(n))
		}
	}
	return out
}

func rep(t *rapid.T, head []string, unit []string, max int) []pbt.B {
	out := kv(t, head...)
	n := rapid.IntRange(1, max).Draw(t, "rep")
	for i := 0; i < n; i++ {
		out = append(out, kv(t, unit...)...)
	}
	return out
}

var dataTmpls = []tmpl{
	{"SET", func(t *rapid.T) []pbt.B { return kv(t, "k", "v") }},
	{"set", func(t *rapid.T) []pbt.B { return kv(t, "k", "v", "PXAT", "ms") }},
	{"SETEX", func(t *rapid.T) []pbt.B { return kv(t, "k", "n", "v") }},
	{"APPEND", func(t *rapid.T) []pbt.B { return kv(t, "k", "v") }},
	{"INCR", func(t *rapid.T) []pbt.B { return kv(t, "k") }},
	{"INCRBY", func(t *rapid.T) []pbt.B { return kv(t, "k", "n") }},
	{"DEL", func(t *rapid.T) []pbt.B { return rep(t, nil, []string{"k"}, 3) }},
	{"UNLINK", func(t *rapid.T) []pbt.B { return rep(t, nil, []string{"k"}, 3) }},
	{"MSET", func(t *rapid.T) []pbt.B { return rep(t, nil, []string{"k", "v"}, 3) }},
	{"RPUSH", func(t *rapid.T) []pbt.B { return rep(t, []string{"k"}, []string{"v"}, 4) }},
	{"LPUSH", func(t *rapid.T) []pbt.B { return rep(t, []string{"k"}, []string{"v"}, 2) }},
	{"LPOP", func(t *rapid.T) []pbt.B { return kv(t, "k") }},
	{"SADD", func(t *rapid.T) []pbt.B { return rep(t, []string{"k"}, []string{"v"}, 3) }},
	{"SREM", func(t *rapid.T) []pbt.B { return rep(t, []string{"k"}, []string{"v"}, 2) }},
	{"ZADD", func(t *rapid.T) []pbt.B { return rep(t, []string{"k"}, []string{"n", "v"}, 3) }},
	{"ZREM", func(t *rapid.T) []pbt.B { return kv(t, "k", "v") }},
	{"HSET", func(t *rapid.T) []pbt.B { return rep(t, []string{"k"}, []string{"v", "v"}, 3) }},
	{"HDEL", func(t *rapid.T) []pbt.B { return kv(t, "k", "v") }},
	{"HINCRBY", func(t *rapid.T) []pbt.B { return kv(t, "k", "v", "n") }},
	{"EXPIRE", func(t *rapid.T) []pbt.B { return kv(t, "k", "n") }},
	{"PEXPIREAT", func(t *rapid.T) []pbt.B { return kv(t, "k", "ms") }},
	{"PERSIST", func(t *rapid.T) []pbt.B { return kv(t, "k") }},
	{"RENAME", func(t *rapid.T) []pbt.B { return kv(t, "k", "k") }},
	{"XADD", func(t *rapid.T) []pbt.B { return kv(t, "k", "id", "v", "v") }},
	{"SETRANGE", func(t *rapid.T) []pbt.B { return kv(t, "k", "n", "v") }},
	{"PFADD", func(t *rapid.T) []pbt.B { return rep(t, []string{"k"}, []string{"v"}, 2) }},
	{"PUBLISH", func(t *rapid.T) []pbt.B { return kv(t, "chan", "v") }},
	{"EVALSHA", func(t *rapid.T) []pbt.B { return kv(t, "0123456789012345678901234567890123456789", "1", "k", "v") }},
}

func GenDataCmd() *rapid.Generator[SrcCmd] {
	return rapid.Custom(func(t *rapid.T) SrcCmd {
		tp := rapid.SampledFrom(dataTmpls).Draw(t, "tmpl")
		return SrcCmd{Name: tp.name, Args: tp.gen(t)}
	})
}

// GenNoise: commands the tool must remove.
func GenNoise(cfg OutCfg) *rapid.Generator[SrcCmd] {
	opts := []SrcCmd{
		{Name: "PING"}, {Name: "ping"},
		{Name: "REPLCONF", Args: []pbt.B{[]byte("GETACK"), []byte("*")}},
		{Name: "PUBLISH", Args: []pbt.B{[]byte("__sentinel__:hello"), []byte("127.0.0.1,26379,abc,0,mymaster,127.0.0.1,6379,0")}},
		{Name: "FLUSHALL"}, {Name: "flushdb"},
		{Name: "CLUSTER", Args: []pbt.B{[]byte("ADDSLOTS"), []byte("1")}},
		{Name: "HSET", Args: []pbt.B{[]byte("redis-gunyu-checkpoint"), []byte("x_offset"), []byte("7")}},
		{Name: "SET", Args: []pbt.B{[]byte("/redis-gunyu/lease"), []byte("v")}},
		{Name: "DEL", Args: []pbt.B{[]byte("redis-gunyu-checkpoint-hash")}},
	}
	for _, b := range cfg.CmdBlacklist {
		opts = append(opts, SrcCmd{Name: b, Args: []pbt.B{[]byte("k1"), []byte("v")}})
		opts = append(opts, SrcCmd{Name: strings.ToUpper(b), Args: []pbt.B{[]byte("k2")}})
	}
	return rapid.SampledFrom(opts)
}

// StreamOpts biases the stream generator.
type StreamOpts struct {
	MaxCmds    int
	TxnBias    int // 0..10: probability weight of transactions
	SelectBias int
	NoiseBias  int
}

// GenStream draws a well-formed replication stream: it starts with SELECT,
// then a mix of data commands, SELECTs, MULTI..EXEC groups (0..12 commands),
// keep-alives and commands that must be removed.
func GenStream(t *rapid.T, cfg OutCfg, o StreamOpts) []SrcCmd {
	if o.MaxCmds == 0 {
		o.MaxCmds = 25
	}
	var out []SrcCmd
	sel := func() SrcCmd {
		db := rapid.IntRange(0, 15).Draw(t, "db")
		if len(cfg.DbBlacklist) > 0 && rapid.IntRange(0, 2).Draw(t, "toBlacklistedDb") == 0 {
			// with a database blacklist the interesting streams move into and out of the blacklisted databases
			db = rapid.SampledFrom(cfg.DbBlacklist).Draw(t, "blackDb")
		}
		return SrcCmd{Name: rapid.SampledFrom([]string{"SELECT", "select"}).Draw(t, "selname"), Args: []pbt.B{[]byte(strconv.Itoa(db))}}
	}
	out = append(out, sel())
	n := rapid.IntRange(1, o.MaxCmds).Draw(t, "ncmds")
	for len(out) < n+1 {
		w := rapid.IntRange(0, 19+o.TxnBias+o.SelectBias+o.NoiseBias).Draw(t, "kind")
		switch {
		case w < 12:
			out = append(out, GenDataCmd().Draw(t, "cmd"))
		case w < 14+o.SelectBias:
			out = append(out, sel())
		case w < 17+o.SelectBias+o.NoiseBias:
			out = append(out, GenNoise(cfg).Draw(t, "noise"))
		default:
			// transaction; Redis emits SELECT before MULTI when the db differs, never inside (clients may not switch DB... they may, rarely)
			k := rapid.SampledFrom([]int{0, 1, 1, 2, 2, 3, 4, 5, 8, 12}).Draw(t, "txnlen")
			out = append(out, SrcCmd{Name: rapid.SampledFrom([]string{"MULTI", "multi"}).Draw(t, "mname")})
			if k > 0 && rapid.IntRange(0, 3).Draw(t, "selAfterMulti") == 0 {
				// Redis 7 propagates MULTI without a database: when the transaction runs in another database than the previous command,
				// the SELECT follows the MULTI instead of preceding it
				out = append(out, sel())
			}
			for i := 0; i < k; i++ {
				if rapid.IntRange(0, 24).Draw(t, "selInTxn") == 0 {
					out = append(out, sel())
				} else {
					out = append(out, GenDataCmd().Draw(t, "tcmd"))
				}
			}
			out = append(out, SrcCmd{Name: rapid.SampledFrom([]string{"EXEC", "exec"}).Draw(t, "ename")})
		}
	}
	return out
}

func GenOutCfg(t *rapid.T, resume *bool, txn *bool) OutCfg {
	c := OutCfg{TargetDb: -1}
	c.BatchCmdCount = uint(rapid.OneOf(rapid.IntRange(1, 5), rapid.IntRange(1, 5), rapid.IntRange(6, 200)).Draw(t, "batchCmdCount"))
	c.BatchBufferSize = uint64(rapid.OneOf(rapid.IntRange(8, 256), rapid.Just(65535), rapid.IntRange(1, 100*1024*1024-1)).Draw(t, "batchBufferSize"))
	c.BatchTickerMs = rapid.IntRange(2, 30).Draw(t, "batchTickerMs")
	c.CpTickerMs = rapid.IntRange(2, 50).Draw(t, "cpTickerMs")
	c.KeepaliveMs = rapid.IntRange(1001, 1200).Draw(t, "keepaliveMs")
	if txn != nil {
		c.Txn = *txn
	} else {
		c.Txn = rapid.Bool().Draw(t, "txn")
	}
	c.Pipeline = rapid.Bool().Draw(t, "pipeline")
	if resume != nil {
		c.Resume = *resume
	} else {
		c.Resume = rapid.IntRange(0, 3).Draw(t, "resume") != 0
	}
	if rapid.Bool().Draw(t, "hasDbMap") {
		c.DbMap = map[int]int{}
		n := rapid.IntRange(1, 4).Draw(t, "ndbmap")
		for i := 0; i < n; i++ {
			c.DbMap[rapid.IntRange(0, 15).Draw(t, "mapFrom")] = rapid.IntRange(0, 15).Draw(t, "mapTo")
		}
	}
	if !c.Resume && rapid.IntRange(0, 3).Draw(t, "hasTargetDb") == 0 {
		c.TargetDb = rapid.IntRange(0, 15).Draw(t, "targetDb")
	}
	if rapid.IntRange(0, 3).Draw(t, "hasDbBlack") == 0 {
		c.DbBlacklist = rapid.SliceOfNDistinct(rapid.IntRange(0, 15), 1, 3, rapid.ID[int]).Draw(t, "dbBlack")
	}
	if rapid.IntRange(0, 3).Draw(t, "hasCmdBlack") == 0 {
		c.CmdBlacklist = rapid.SliceOfNDistinct(rapid.SampledFrom([]string{"lpop", "PFADD", "Rename", "evalsha", "hincrby"}), 1, 2, rapid.ID[string]).Draw(t, "cmdBlack")
	}
	return c
}

func GenSchedule(t *rapid.T, cfg OutCfg, idle bool) Schedule {
	s := Schedule{}
	s.Chunks = rapid.SliceOfN(rapid.SampledFrom([]int{0, 0, 0, 1, 3, 7, 20, 64, 500}), 1, 5).Draw(t, "chunks")
	unit := []int{0, 0, 0, 0, cfg.BatchTickerMs / 2, cfg.BatchTickerMs, cfg.BatchTickerMs * 2, cfg.CpTickerMs, cfg.CpTickerMs * 2, cfg.BatchTickerMs * 5}
	np := rapid.IntRange(0, 4).Draw(t, "npauses")
	for i := 0; i < np; i++ {
		s.Pauses = append(s.Pauses, Pause{At: rapid.IntRange(0, 40).Draw(t, "pauseAt"), Ms: rapid.SampledFrom(unit).Draw(t, "pauseMs")})
	}
	if rapid.IntRange(0, 3).Draw(t, "lead") == 0 {
		s.LeadMs = rapid.SampledFrom(unit).Draw(t, "leadMs")
	}
	if idle && rapid.IntRange(0, 24).Draw(t, "longIdle") == 0 {
		// an idle gap longer than the keep-alive ticker (expensive: a minority class by design)
		s.Pauses = append(s.Pauses, Pause{At: rapid.IntRange(0, 10).Draw(t, "idleAt"), Ms: cfg.KeepaliveMs + 60})
	}
	return s
}

// GenKeepaliveCase draws a case in which the source goes idle for longer than the keep-alive ticker at a chosen
// command boundary (after a SELECT, after a plain command while it is still queued, right after MULTI, in the middle
// of a transaction, after EXEC). The batch ticker is often longer than the keep-alive so that queued commands are
// still unsent when the keep-alive fires. Returns configuration, stream and a command-aligned schedule.
func GenKeepaliveCase(t *rapid.T, txn *bool) (OutCfg, []SrcCmd, Schedule) {
	c := OutCfg{TargetDb: -1, Resume: true}
	if txn != nil {
		c.Txn = *txn
	} else {
		c.Txn = rapid.Bool().Draw(t, "txn")
	}
	c.Pipeline = rapid.Bool().Draw(t, "pipeline")
	c.BatchCmdCount = uint(rapid.SampledFrom([]int{2, 3, 50, 50}).Draw(t, "batchCmdCount"))
	c.BatchBufferSize = 65535
	c.BatchTickerMs = rapid.SampledFrom([]int{5000, 5000, 20}).Draw(t, "batchTickerMs")
	c.CpTickerMs = rapid.SampledFrom([]int{5000, 30}).Draw(t, "cpTickerMs")
	c.KeepaliveMs = rapid.IntRange(1001, 1060).Draw(t, "keepaliveMs")
	sel := func() SrcCmd {
		return SrcCmd{Name: "SELECT", Args: []pbt.B{[]byte(strconv.Itoa(rapid.IntRange(0, 3).Draw(t, "db")))}}
	}
	var cmds []SrcCmd
	cmds = append(cmds, sel())
	var spots []int // command indexes after which the idle gap may be placed
	spots = append(spots, 0)
	for i, n := 0, rapid.IntRange(0, 3).Draw(t, "nplain"); i < n; i++ {
		cmds = append(cmds, GenDataCmd().Draw(t, "cmd"))
		spots = append(spots, len(cmds)-1)
	}
	if rapid.IntRange(0, 4).Draw(t, "hasTxn") != 0 {
		if rapid.Bool().Draw(t, "selBeforeTxn") {
			cmds = append(cmds, sel())
		}
		cmds = append(cmds, SrcCmd{Name: "MULTI"})
		spots = append(spots, len(cmds)-1, len(cmds)-1) // right after MULTI: weighted
		for i, n := 0, rapid.IntRange(0, 4).Draw(t, "ntxn"); i < n; i++ {
			cmds = append(cmds, GenDataCmd().Draw(t, "tcmd"))
			spots = append(spots, len(cmds)-1)
		}
		cmds = append(cmds, SrcCmd{Name: "EXEC"})
		spots = append(spots, len(cmds)-1)
	}
	for i, n := 0, rapid.IntRange(0, 2).Draw(t, "ntail"); i < n; i++ {
		cmds = append(cmds, GenDataCmd().Draw(t, "tail"))
	}
	at := rapid.SampledFrom(spots).Draw(t, "idleAfter")
	s := Schedule{Chunks: []int{0}, Pauses: []Pause{{At: at, Ms: c.KeepaliveMs + 90}}}
	return c, cmds, s
}

// PingIdle rewrites a stream and builds a command-aligned schedule the way an idle master behaves: its keep-alive PINGs are
// surrounded by idle time (a master only sends PING when it has nothing else to send), and what follows an idle period is typically
// a SELECT or a MULTI. PINGs are inserted in front of some SELECT / MULTI commands and after some plain commands; every PING gets an
// idle gap before and / or after it, drawn from the ticker periods of the configuration.
func PingIdle(t *rapid.T, cfg OutCfg, cmds []SrcCmd) ([]SrcCmd, Schedule) {
	var out []SrcCmd
	inTxn := false
	for i, c := range cmds {
		n := c.Lower()
		if i > 0 && !inTxn && (n == "select" || n == "multi") && rapid.IntRange(0, 2).Draw(t, "pingBeforeBarrier") > 0 {
			for k, m := 0, rapid.IntRange(1, 2).Draw(t, "npings"); k < m; k++ {
				out = append(out, SrcCmd{Name: rapid.SampledFrom([]string{"PING", "ping"}).Draw(t, "pingName")})
			}
		}
		out = append(out, c)
		if n == "multi" {
			inTxn = true
		} else if n == "exec" {
			inTxn = false
		}
		if !inTxn && n != "select" && rapid.IntRange(0, 7).Draw(t, "pingAfter") == 0 {
			out = append(out, SrcCmd{Name: "PING"})
		}
	}
	s := Schedule{Chunks: []int{0}}
	unit := []int{0, cfg.BatchTickerMs/2 + 1, cfg.BatchTickerMs + 3, cfg.BatchTickerMs*2 + 3, cfg.CpTickerMs + 3, cfg.CpTickerMs*2 + 3}
	for i, c := range out {
		if c.Lower() != "ping" {
			continue
		}
		if i > 0 {
			if ms := rapid.SampledFrom(unit).Draw(t, "idleBeforePing"); ms > 0 {
				s.Pauses = append(s.Pauses, Pause{At: i - 1, Ms: ms})
			}
		}
		if ms := rapid.SampledFrom(unit).Draw(t, "idleAfterPing"); ms > 0 {
			s.Pauses = append(s.Pauses, Pause{At: i, Ms: ms})
		}
	}
	return out, s
}
