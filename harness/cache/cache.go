// Package cache drives a syncer.Channel (disk or memory backend) the way
// RedisInput / the replica code do, with bytes that are a pure function of
// (lineage, offset), so that every byte any reader ever returns can be checked
// without a stored model. Shared by C05, C08 (and the doubles of C06 / C16).
package cache

import (
	"context"
	"encoding/binary"
	"fmt"
	"io"
	"sync"
	"time"

	"github.com/mgtv-tech/redis-GunYu/config"
	usync "github.com/mgtv-tech/redis-GunYu/pkg/sync"
	"github.com/mgtv-tech/redis-GunYu/syncer"

	"verifharness/gen"
	"verifharness/ref/crc64"
)

// ByteAt: the byte a source of lineage `lin` sends at replication offset off.
func ByteAt(lin int, off int64) byte {
	x := uint64(off)*0x9E3779B97F4A7C15 ^ uint64(lin+1)*0xC2B2AE3D27D4EB4F
	x ^= x >> 29
	x *= 0xBF58476D1CE4E5B9
	x ^= x >> 32
	return byte(x)
}

// SnapByte: byte i of the snapshot a source of lineage lin produced at offset rdbOff.
func SnapByte(lin int, rdbOff int64, i int64) byte {
	return ByteAt(lin+1000, rdbOff*131+i)
}

func Bytes(lin int, from, n int64) []byte {
	b := make([]byte, n)
	for i := range b {
		b[i] = ByteAt(lin, from+int64(i))
	}
	return b
}

func SnapBytes(lin int, rdbOff, size int64) []byte {
	b := make([]byte, size)
	for i := range b {
		b[i] = SnapByte(lin, rdbOff, int64(i))
	}
	if size > 8 {
		// a snapshot ends with the CRC64 of everything before it (the cache verifies it when verifyCrc is on)
		binary.LittleEndian.PutUint64(b[size-8:], crc64.Sum(b[:size-8]))
	}
	return b
}

// Pump drains one ChannelReader in the background.
type Pump struct {
	R       syncer.ChannelReader
	Lin     int   // lineage the reader was opened under
	X       int64 // offset requested
	Aof     bool
	RdbOff  int64
	RdbSize int64

	limit  int64
	resume chan struct{}
	want   []byte // snapshot readers: the snapshot's bytes (computed once)

	mu   sync.Mutex
	buf  []byte
	err  error
	done bool
	wait usync.WaitCloser
}

func StartPump(r syncer.ChannelReader, lin int, x int64) *Pump {
	return StartPumpLimit(r, lin, x, -1)
}

// StartPumpLimit starts a consumer that stops reading after `limit` bytes (a slow consumer: a target that takes its time to
// replay a snapshot, a follower on a slow link) until Resume is called; limit < 0: reads as fast as it can.
func StartPumpLimit(r syncer.ChannelReader, lin int, x int64, limit int64) *Pump {
	p := &Pump{R: r, Lin: lin, X: x, Aof: r.IsAof(), wait: usync.NewWaitCloser(nil), limit: limit, resume: make(chan struct{})}
	if !p.Aof {
		p.RdbOff, p.RdbSize = r.Left(), r.Size()
	}
	r.Start(p.wait)
	go func() {
		b := make([]byte, 4096)
		for {
			p.mu.Lock()
			lim, have := p.limit, int64(len(p.buf))
			p.mu.Unlock()
			chunk := b
			if lim >= 0 {
				if have >= lim {
					select {
					case <-p.resume:
						continue
					case <-p.wait.Context().Done():
						p.mu.Lock()
						p.err, p.done = io.ErrClosedPipe, true
						p.mu.Unlock()
						return
					}
				}
				if lim-have < int64(len(chunk)) {
					chunk = chunk[:lim-have]
				}
			}
			n, err := r.IoReader().Read(chunk)
			p.mu.Lock()
			p.buf = append(p.buf, chunk[:n]...)
			if err != nil {
				p.err, p.done = err, true
				p.mu.Unlock()
				return
			}
			p.mu.Unlock()
		}
	}()
	return p
}

// Paused: the consumer has a limit it will not read beyond until Resume.
func (p *Pump) Paused() bool { p.mu.Lock(); defer p.mu.Unlock(); return p.limit >= 0 }

// Resume lifts the limit.
func (p *Pump) Resume() {
	p.mu.Lock()
	was := p.limit
	p.limit = -1
	p.mu.Unlock()
	if was >= 0 {
		close(p.resume)
	}
}

func (p *Pump) Snapshot() (buf []byte, done bool, err error) {
	p.mu.Lock()
	defer p.mu.Unlock()
	return append([]byte(nil), p.buf...), p.done, p.err
}

func (p *Pump) Len() int { p.mu.Lock(); defer p.mu.Unlock(); return len(p.buf) }

func (p *Pump) Close() {
	p.wait.Close(nil)
	p.R.Close()
}

// WaitLen waits until at least n bytes arrived, the reader ended, or d elapsed.
func (p *Pump) WaitLen(n int, d time.Duration) bool {
	deadline := time.Now().Add(d)
	for {
		p.mu.Lock()
		l, done := len(p.buf), p.done
		p.mu.Unlock()
		if l >= n {
			return true
		}
		if done || time.Now().After(deadline) {
			return false
		}
		time.Sleep(200 * time.Microsecond)
	}
}

// WaitProgress waits until at least n bytes arrived or the reader ended; unlike WaitLen it keeps waiting as long as bytes keep
// coming (the disk reader needs >= 10 ms to step over each segment boundary) and gives up only after `idle` without a single
// new byte, or after `total`.
func (p *Pump) WaitProgress(n int, idle, total time.Duration) bool {
	begin, last, lastMove := time.Now(), -1, time.Now()
	for {
		p.mu.Lock()
		l, done := len(p.buf), p.done
		p.mu.Unlock()
		if l >= n {
			return true
		}
		if l != last {
			last, lastMove = l, time.Now()
		}
		if done || time.Since(lastMove) > idle || time.Since(begin) > total {
			return false
		}
		time.Sleep(200 * time.Microsecond)
	}
}

// Verify checks every byte received so far against the byte function. Returns "" or a description.
func (p *Pump) Verify() string {
	buf, _, _ := p.Snapshot()
	if p.Aof {
		for i, b := range buf {
			if w := ByteAt(p.Lin, p.X+int64(i)); b != w {
				return fmt.Sprintf("reader opened at offset %d: byte %d (offset %d) is %#02x, the source sent %#02x", p.X, i, p.X+int64(i), b, w)
			}
		}
		return ""
	}
	if int64(len(buf)) > p.RdbSize {
		return fmt.Sprintf("snapshot reader delivered %d bytes, the snapshot has %d", len(buf), p.RdbSize)
	}
	if p.want == nil {
		p.want = SnapBytes(p.Lin, p.RdbOff, p.RdbSize)
	}
	want := p.want
	for i, b := range buf {
		if w := want[i]; b != w {
			return fmt.Sprintf("snapshot reader (snapshot at offset %d): byte %d is %#02x, the source sent %#02x", p.RdbOff, i, b, w)
		}
	}
	return ""
}

// Chan wraps a channel with the writer plumbing.
type Chan struct {
	C      syncer.Channel
	Disk   bool
	Dir    string
	LogSz  int64
	MaxSz  int64
	pw     *io.PipeWriter
	aofW   syncer.AofChannelWriter
	cancel context.CancelFunc
}

func SetVerifyCrc(v bool) {
	c := config.GetSyncerConfig()
	if c.Channel == nil {
		c.Channel = &config.ChannelConfig{}
	}
	c.Channel.VerifyCrc = v
}

func Open(disk bool, dir string, logSize, maxSize int64) *Chan {
	gen.QuietLogs()
	ch := &Chan{Disk: disk, Dir: dir, LogSz: logSize, MaxSz: maxSize}
	if disk {
		ch.C = syncer.NewStoreChannel(syncer.StorerConf{InputId: "verif", Dir: dir, MaxSize: maxSize, LogSize: logSize})
	} else {
		ch.C = syncer.NewMemoryChannel(syncer.MemoryConf{InputId: "verif", MaxSize: maxSize, LogSize: logSize})
	}
	return ch
}

// StopWriter closes the feeding side (the source connection goes away).
func (c *Chan) StopWriter() {
	if c.aofW != nil {
		c.aofW.Close()
		c.aofW = nil
	}
	if c.pw != nil {
		c.pw.Close()
		c.pw = nil
	}
}

// WriteRdb stores a complete snapshot (what syncData does for a full sync); returns an error text or "".
func (c *Chan) WriteRdb(lin int, off, size int64, upTo int64) string {
	c.StopWriter()
	pr, pw := io.Pipe()
	w, err := c.C.NewRdbWriter(pr, off, size)
	if err != nil {
		return "NewRdbWriter: " + err.Error()
	}
	w.Start()
	data := SnapBytes(lin, off, size)
	go func() {
		pw.Write(data[:upTo])
		if upTo < size {
			// the source connection breaks in the middle of the snapshot
			pw.CloseWithError(io.ErrUnexpectedEOF)
		}
	}()
	ctx, cancel := context.WithTimeout(context.Background(), 10*time.Second)
	defer cancel()
	werr := w.Wait(ctx)
	w.Close()
	if upTo == size {
		pw.Close()
		if werr != nil {
			return "rdb writer: " + werr.Error()
		}
	}
	return ""
}

// StartAof attaches a log writer at offset off.
func (c *Chan) StartAof(off int64) string {
	// the callers stop the previous writer (Close, which finishes its file synchronously) before they
	// create the next one; only then does the old source connection go away
	if c.aofW != nil {
		c.aofW.Close()
		c.aofW = nil
	}
	if c.pw != nil {
		c.pw.Close()
		c.pw = nil
	}
	pr, pw := io.Pipe()
	w, err := c.C.NewAofWritter(pr, off)
	if err != nil {
		return "NewAofWritter: " + err.Error()
	}
	w.Start()
	c.pw, c.aofW = pw, w
	return ""
}

// Append feeds the bytes [from, from+n) of the lineage and waits until the channel reports them.
func (c *Chan) Append(lin int, from, n int64, runID string) string {
	return c.AppendBytes(Bytes(lin, from, n), from, runID)
}

// AppendBytes feeds the given bytes (the source's bytes from offset `from` on) and waits until the channel reports them.
func (c *Chan) AppendBytes(data []byte, from int64, runID string) string {
	if c.pw == nil {
		return "no writer"
	}
	n := int64(len(data))
	done := make(chan error, 1)
	go func() { _, err := c.pw.Write(data); done <- err }()
	select {
	case err := <-done:
		if err != nil {
			return "feed: " + err.Error()
		}
	case <-time.After(10 * time.Second):
		return "timeout: writer did not consume the bytes within 10 s"
	}
	deadline := time.Now().Add(10 * time.Second)
	for {
		if c.aofW != nil && c.aofW.Right() >= from+n {
			// the channel's own view follows the writer through an observer call: wait for it too
			if _, r := c.C.GetOffsetRange(runID); r >= from+n {
				return ""
			}
		}
		if time.Now().After(deadline) {
			if c.aofW == nil {
				return "timeout: the writer is gone"
			}
			return fmt.Sprintf("timeout: writer right is %d, expected %d", c.aofW.Right(), from+n)
		}
		time.Sleep(100 * time.Microsecond)
	}
}

func (c *Chan) Close() {
	c.StopWriter()
	c.C.Close()
}

// Gc runs one collector pass on the disk backend (the memory backend collects when it needs room).
func (c *Chan) Gc() {
	if g, ok := c.C.(interface{ VerifGcLog() }); ok {
		g.VerifGcLog()
	}
}

// Lineage is a replication history: up to Fork it shares its parent's bytes (a failover keeps the stream), from Fork on it is its own.
type Lineage struct {
	ID     int
	Parent *Lineage
	Fork   int64
}

func (l *Lineage) At(off int64) byte {
	if l.Parent != nil && off < l.Fork {
		return l.Parent.At(off)
	}
	return ByteAt(l.ID, off)
}

func (l *Lineage) Bytes(from, n int64) []byte {
	b := make([]byte, n)
	for i := range b {
		b[i] = l.At(from + int64(i))
	}
	return b
}

// RunID is the 40-character replication id of the lineage.
func (l *Lineage) RunID() string {
	return fmt.Sprintf("%040x", 0xabc000+l.ID)
}
