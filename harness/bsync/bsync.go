// Package bsync sets up bidirectional-replay links (RedisOutput with bisyncEnabled) against the doubles and decodes what
// such a link leaves at its target: marker / business / recovery-record transactions, latest and frontier records.
// Shared by C13, C14 and C18.
package bsync

import (
	"encoding/json"
	"fmt"
	"sort"
	"strconv"
	"strings"
	"sync"
	"time"

	"github.com/mgtv-tech/redis-GunYu/config"
	"github.com/mgtv-tech/redis-GunYu/pkg/redis/checkpoint"
	"github.com/mgtv-tech/redis-GunYu/pkg/redis/client"
	"github.com/mgtv-tech/redis-GunYu/syncer"

	"verifharness/fake"
	"verifharness/gen"
)

// Target is what a link writes to: one standalone double or a cluster of doubles.
type Target struct {
	Std *fake.Server
	Set *fake.ClusterSet
}

func (t *Target) Nodes() []*fake.Server {
	if t.Set != nil {
		return t.Set.Nodes
	}
	return []*fake.Server{t.Std}
}

func (t *Target) Close() {
	if t.Set != nil {
		t.Set.Close()
	} else {
		t.Std.Close()
	}
}

// Cfg is the target's RedisConfig with the topology filled in as redis.FixTopology leaves it.
func (t *Target) Cfg() config.RedisConfig {
	if t.Set == nil {
		return gen.RedisCfg(t.Std.Addr())
	}
	c := config.RedisConfig{Addresses: t.Set.Addrs(), Type: config.RedisTypeCluster, Otype: config.RedisTypeCluster, Version: "7.2.0",
		ClusterOptions: &config.RedisClusterOptions{HandleMoveErr: true, HandleAskErr: true}}
	var shards []*config.RedisClusterShard
	for i, n := range t.Set.Nodes {
		var rs []config.RedisSlotRange
		for _, r := range t.Set.Ranges(i) {
			rs = append(rs, config.RedisSlotRange{Left: r[0], Right: r[1]})
		}
		if len(rs) == 0 {
			continue
		}
		shards = append(shards, &config.RedisClusterShard{Slots: config.RedisSlots{Ranges: rs},
			Master: config.RedisNode{Address: n.Addr(), Role: config.RedisRoleMaster, Health: "online"}})
	}
	c.SetClusterShards(shards)
	return c
}

// LinkCfg are the replay options of one link.
type LinkCfg struct {
	Mode        string   `json:"mode"` // sync | pipeline | parallel
	Batch       uint     `json:"batch"`
	Parallelism int      `json:"parallelism,omitempty"`
	KeyExists   string   `json:"keyExists,omitempty"`
	InputName   string   `json:"-"`
	PrefixBlack []string `json:"prefixBlack,omitempty"`
	PrefixWhite []string `json:"prefixWhite,omitempty"`
	CmdBlack    []string `json:"cmdBlack,omitempty"`
	NoRestore   bool     `json:"noRestore,omitempty"` // snapshot values are replayed as expanded commands instead of RESTORE
}

func (lc LinkCfg) ReplayMode() config.ReplayMode {
	switch lc.Mode {
	case "pipeline":
		return config.ReplayModePipeline
	case "parallel":
		return config.ReplayModeParallel
	}
	return config.ReplayModeSync
}

// OutputConfig builds the RedisOutputConfig the way syncer.newOutput does for a bidirectional link.
func OutputConfig(t *Target, lc LinkCfg, runID, cpName string) syncer.RedisOutputConfig {
	in := lc.InputName
	if in == "" {
		in = "verif-src"
	}
	ke := lc.KeyExists
	if ke == "" {
		ke = "replace"
	}
	b := lc.Batch
	if b == 0 {
		b = 8
	}
	oc := syncer.RedisOutputConfig{
		InputName:                  in,
		CheckpointName:             cpName,
		RunId:                      runID,
		BisyncEnabled:              true,
		CanTransaction:             true,
		Redis:                      t.Cfg(),
		EnableResumeFromBreakPoint: true,
		KeyExists:                  ke,
		MaxProtoBulkLen:            512 * 1024 * 1024,
		TargetDb:                   -1,
		TargetDbMap:                map[int]int{},
		BatchCmdCount:              b,
		BatchTicker:                5 * time.Millisecond,
		BatchBufferSize:            65535,
		KeepaliveTicker:            3 * time.Second,
		ReplayRdbParallel:          1,
		Parallelism:                lc.Parallelism,
		ReplayRdbEnableRestore:     !lc.NoRestore,
		ReplayMode:                 lc.ReplayMode(),
		UpdateCheckpointTicker:     20 * time.Millisecond,
		ReplayPipeline:             lc.Mode == "pipeline",
		Stats:                      config.OutputStats{DisableLog: true, LogInterval: 5 * time.Second},
	}
	oc.Filter = config.FilterConfig{CmdBlacklist: lc.CmdBlack}
	if len(lc.PrefixBlack) > 0 || len(lc.PrefixWhite) > 0 {
		oc.Filter.KeyFilter = &config.FilterKeyConfig{PrefixKeyBlacklist: lc.PrefixBlack, PrefixKeyWhitelist: lc.PrefixWhite}
	}
	return oc
}

// StartUp does what syncer.newOutput does for a bidirectional link: resolve (or create, or migrate) the checkpoint
// namespace, maintain the root checkpoint, construct the output.
func StartUp(t *Target, lc LinkCfg, ids []string) (*syncer.RedisOutput, string, error) {
	gen.QuietLogs()
	cfg := t.Cfg()
	cli, err := client.NewRedis(cfg)
	if err != nil {
		return nil, "", err
	}
	defer cli.Close()
	cp, err := syncer.VerifResolveBisyncCheckpointName(syncer.SyncerConfig{Output: cfg, CanTransaction: true}, cli, ids, lc.ReplayMode())
	if err != nil {
		return nil, "", fmt.Errorf("resolve namespace: %w", err)
	}
	if err := checkpoint.UpdateCheckpoint(cli, cp, ids); err != nil {
		return nil, cp, fmt.Errorf("update checkpoint: %w", err)
	}
	return syncer.NewRedisOutput(OutputConfig(t, lc, ids[0], cp)), cp, nil
}

// Marker is the decoded first command of a mirrored transaction.
type Marker struct {
	RecordType  string `json:"record_type"`
	RunID       string `json:"run_id"`
	SyncerID    string `json:"syncer_id"`
	UnitSeq     int64  `json:"unit_seq"`
	StartOffset int64  `json:"start_offset"`
	EndOffset   int64  `json:"end_offset"`
	Slot        int    `json:"slot"`
	Digest      string `json:"digest"`
}

// Block is one executed transaction (or a stand-alone command) at a target node.
type Block struct {
	Node       int               `json:"node"`
	Seq        int               `json:"seq"` // request number of the EXEC (cluster-wide order for a ClusterSet)
	InTxn      bool              `json:"intxn"`
	Marker     *Marker           `json:"marker,omitempty"`
	MarkerKey  string            `json:"markerKey,omitempty"`
	Business   [][][]byte        `json:"-"`
	BusinessS  [][]string        `json:"business"`
	Record     map[string]string `json:"record,omitempty"` // the recovery record written in the block (latest or commit)
	RecordKey  string            `json:"recordKey,omitempty"`
	IndexKey   string            `json:"indexKey,omitempty"`
	Control    [][]string        `json:"control,omitempty"` // bookkeeping commands other than marker / record / index
	ControlRaw [][][]byte        `json:"-"`
}

func isControlKey(k []byte) bool {
	s := string(k)
	return strings.HasPrefix(s, "redis-gunyu-bisync:") || strings.HasPrefix(s, "redis-gunyu-checkpoint")
}

func quote(cmd string, args [][]byte) []string {
	out := []string{cmd}
	for _, a := range args {
		if len(a) > 80 {
			out = append(out, fmt.Sprintf("%q...(%d)", a[:80], len(a)))
		} else {
			out = append(out, fmt.Sprintf("%q", a))
		}
	}
	return out
}

// Blocks groups a node's execution log into atomic blocks (reads are dropped).
func Blocks(node int, log []fake.LogEntry) []Block {
	var out []Block
	byGroup := map[int]int{}
	for _, e := range log {
		switch e.Cmd {
		case "ping", "info", "select", "exists", "hgetall", "hget", "zrangebyscore", "command", "cluster", "type", "get", "dbsize", "echo", "client", "auth", "keys", "hlen", "pttl", "ttl":
			continue
		}
		i, ok := byGroup[e.Group]
		if !ok {
			out = append(out, Block{Node: node, Seq: e.Seq, InTxn: e.InTxn})
			i = len(out) - 1
			byGroup[e.Group] = i
		}
		b := &out[i]
		ctl := len(e.Args) > 0 && isControlKey(e.Args[0])
		switch {
		case ctl && e.Cmd == "set" && strings.Contains(string(e.Args[0]), ":marker:{") && b.Marker == nil && len(b.Business) == 0:
			var m Marker
			if err := json.Unmarshal(e.Args[1], &m); err == nil {
				b.Marker = &m
				b.MarkerKey = string(e.Args[0])
			} else {
				b.Control = append(b.Control, quote(e.Cmd, e.Args))
				b.ControlRaw = append(b.ControlRaw, append([][]byte{[]byte(e.Cmd)}, e.Args...))
			}
		case ctl && e.Cmd == "hset" && (strings.Contains(string(e.Args[0]), ":latest:{") || strings.Contains(string(e.Args[0]), ":commit:{")) && b.Record == nil:
			b.Record = map[string]string{}
			b.RecordKey = string(e.Args[0])
			for j := 1; j+1 < len(e.Args); j += 2 {
				b.Record[string(e.Args[j])] = string(e.Args[j+1])
			}
		case ctl && e.Cmd == "zadd" && strings.Contains(string(e.Args[0]), ":index:{"):
			b.IndexKey = string(e.Args[0])
		case ctl:
			b.Control = append(b.Control, quote(e.Cmd, e.Args))
			b.ControlRaw = append(b.ControlRaw, append([][]byte{[]byte(e.Cmd)}, e.Args...))
		default:
			full := append([][]byte{[]byte(e.Cmd)}, e.Args...)
			b.Business = append(b.Business, full)
			b.BusinessS = append(b.BusinessS, quote(e.Cmd, e.Args))
		}
	}
	return out
}

// AllBlocks merges the blocks of every node of the target in request order.
func AllBlocks(t *Target) []Block {
	var out []Block
	for i, n := range t.Nodes() {
		log, _ := n.SnapshotLog()
		out = append(out, Blocks(i, log)...)
	}
	sort.SliceStable(out, func(a, b int) bool { return out[a].Seq < out[b].Seq })
	return out
}

func Atoi(s string) int64 { n, _ := strconv.ParseInt(s, 10, 64); return n }

// World adds a cluster-wide request budget to a target: once Arm(k) further requests have been processed, every node
// drops the connection of any further request without executing it (the target, or the link to it, is dead) until Heal.
type World struct {
	T      *Target
	mu     sync.Mutex
	budget int64 // < 0: unlimited
	used   int64
	dead   bool
	lose   bool // the last request of the budget is executed but its reply is lost (the connection dies instead)
	losing bool
	OnDead func()
	total  int64
	// Counts: only requests for which it returns true consume the budget (nil: all). Uncounted requests are still refused once the target is dead.
	Counts func(cmd string, args [][]byte) bool
}

func NewWorld(t *Target) *World {
	w := &World{T: t, budget: -1}
	for _, n := range t.Nodes() {
		n.Lock()
		n.RefuseOf = func(conn int, cmd string, args [][]byte) bool { return w.refuse(cmd, args) }
		n.DropReplyOf = func(conn int, cmd string, args [][]byte) bool { return w.dropReply(cmd, args) }
		n.Unlock()
	}
	return w
}

func (w *World) refuse(cmd string, args [][]byte) bool {
	w.mu.Lock()
	defer w.mu.Unlock()
	if w.dead {
		return true
	}
	if w.Counts != nil && !w.Counts(cmd, args) {
		return false
	}
	if w.budget >= 0 && w.used >= w.budget {
		w.dead = true
		if w.OnDead != nil {
			go w.OnDead()
		}
		return true
	}
	w.used++
	w.total++
	if w.lose && w.budget >= 0 && w.used >= w.budget {
		w.losing = true
	}
	return false
}

// dropReply is asked after a request was executed: the last request of a budget armed with ArmLose loses its reply, and the
// target is dead from then on (a link that fails between the target executing a request and the tool reading the answer).
func (w *World) dropReply(cmd string, args [][]byte) bool {
	w.mu.Lock()
	defer w.mu.Unlock()
	if !w.losing || (w.Counts != nil && !w.Counts(cmd, args)) {
		return false
	}
	w.losing = false
	w.dead = true
	if w.OnDead != nil {
		go w.OnDead()
	}
	return true
}

// Arm: the next k requests are processed, everything after is refused.
func (w *World) Arm(k int) {
	w.mu.Lock()
	w.budget, w.used, w.dead, w.lose, w.losing = int64(k), 0, false, false, false
	w.mu.Unlock()
}

// ArmLose: like Arm, but the k-th request is executed and its reply is lost.
func (w *World) ArmLose(k int) {
	w.mu.Lock()
	w.budget, w.used, w.dead, w.lose, w.losing = int64(k), 0, false, k > 0, false
	w.mu.Unlock()
}

// Heal: the target is reachable again (its state is what the processed requests left).
func (w *World) Heal() {
	w.mu.Lock()
	w.budget, w.used, w.dead, w.lose, w.losing = -1, 0, false, false, false
	w.mu.Unlock()
	for _, n := range w.T.Nodes() {
		n.DropConns()
	}
}

func (w *World) Dead() bool   { w.mu.Lock(); defer w.mu.Unlock(); return w.dead }
func (w *World) Used() int64  { w.mu.Lock(); defer w.mu.Unlock(); return w.used }
func (w *World) Total() int64 { w.mu.Lock(); defer w.mu.Unlock(); return w.total }
