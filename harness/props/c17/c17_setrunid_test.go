// C17, third unit — moving the resume position to a new replication id the way the running tool does it.
//
// After a source failover the input tells the output the new replication id (RedisOutput.SetRunId); the output moves the checkpoint
// with checkpoint.UpdateCheckpoint(ids = [new, previous]) and repeats the call up to three times when it fails. Here the target
// connection dies after every prefix k of the requests the uninterrupted operation issues (the target itself comes back half a
// second later, long before the repetition, which the tool starts about 4 s later), SetRunId is left to finish by itself, and the
// next clean start (ids = [new, previous], as the source reports them) must find a position that is not smaller and in the same
// database. All prefixes of a case run concurrently (each on its own copy of the target): the 4 s are waiting time, not work.
package c17

import (
	"context"
	"fmt"
	"sync"
	"testing"
	"time"

	"pgregory.net/rapid"

	"github.com/mgtv-tech/redis-GunYu/syncer"

	"verifharness/fake"
	"verifharness/gen"
	"verifharness/pbt"
)

func genSetRunIDCase(t *rapid.T) Case {
	c := Case{OldName: "redis-gunyu-checkpoint", NewName: "redis-gunyu-checkpoint", Hash: map[string]string{}, Op: "setrunid"}
	c.OldIDs = []string{"A", rapid.SampledFrom([]string{"B", "Z"}).Draw(t, "oldid2")}
	c.NewIDs = []string{"C", "A"}
	c.StaleMin = 60
	n := rapid.IntRange(1, 3).Draw(t, "nentries")
	used := map[int]bool{}
	for i := 0; i < n; i++ {
		e := Entry{DB: rapid.SampledFrom([]int{0, 0, 1, 2, 5, 15}).Draw(t, "db"), Name: c.OldName, RunID: "A"}
		if used[e.DB] {
			continue
		}
		used[e.DB] = true
		e.Offset = rapid.Int64Range(1, 100000).Draw(t, "offset") + int64(i)*100000
		e.AgeMin = rapid.SampledFrom([]int{-1, 0, 1}).Draw(t, "age")
		c.Entries = append(c.Entries, e)
	}
	c.Hash["A"] = c.OldName
	if rapid.Bool().Draw(t, "extra") {
		c.ExtraDBs = rapid.SliceOfNDistinct(rapid.IntRange(0, 15), 1, 3, rapid.ID[int]).Draw(t, "extraDbs")
	}
	return c
}

// setRunID runs RedisOutput.SetRunId(new id) against srv; the target drops dead after crashAt requests (0: never) and is back 500 ms later.
func setRunID(c Case, srv *fake.Server, crashAt int) (reqs int, err error) {
	before := srv.ReqCount()
	if crashAt > 0 {
		srv.Lock()
		srv.OnCrash = func() {
			go func() {
				time.Sleep(500 * time.Millisecond)
				srv.Restart()
			}()
		}
		srv.Unlock()
		srv.CrashAfter(crashAt)
	}
	oc := gen.OutputConfig(gen.OutCfg{Resume: true, TargetDb: -1, BatchCmdCount: 10, BatchBufferSize: 65535, BatchTickerMs: 10, CpTickerMs: 10, KeepaliveMs: 1100}, srv.Addr(), rid(c.OldIDs[0]))
	oc.CheckpointName = c.OldName
	ro := syncer.NewRedisOutput(oc)
	ctx, cancel := context.WithTimeout(context.Background(), 40*time.Second)
	defer cancel()
	err = ro.SetRunId(ctx, rid(c.NewIDs[0]))
	srv.WaitIdle(time.Second)
	return srv.ReqCount() - before, err
}

func runSetRunID(c Case) (fs []failure, inconc string, facts map[string]bool, evals int) {
	gen.QuietLogs()
	facts = map[string]bool{}
	now := time.Now()
	base := fake.NewServer()
	if err := seed(base, c, now); err != nil {
		base.Close()
		return nil, "seed: " + err.Error(), facts, 0
	}
	base.WaitIdle(time.Second)
	initKS := base.SnapshotKS()
	p0, err := cleanStart(initKS, c.OldName, c.OldIDs)
	if err != nil {
		base.Close()
		return nil, "clean start on the initial state: " + err.Error(), facts, 0
	}
	// cleanStart worked on a copy; the running tool had applied its start-up maintenance to the real state
	base.Close()
	mk := func() (*fake.Server, error) {
		s := fake.NewServer()
		s.Lock()
		s.KS = initKS.Clone()
		s.Unlock()
		if _, err := cleanStartOn(s, c.OldName, c.OldIDs); err != nil {
			s.Close()
			return nil, err
		}
		return s, nil
	}
	s0, err := mk()
	if err != nil {
		return nil, "normalising the initial state: " + err.Error(), facts, 0
	}
	R, err := setRunID(c, s0, 0)
	evals++
	if err != nil {
		s0.Close()
		return nil, "uninterrupted SetRunId: " + err.Error(), facts, evals
	}
	var mu sync.Mutex
	judge := func(ks *fake.Keyspace, k int, opErr error) {
		p1, err := cleanStart(ks, c.NewName, c.NewIDs)
		mu.Lock()
		defer mu.Unlock()
		if err != nil {
			inconc = fmt.Sprintf("clean start after prefix %d: %v", k, err)
			return
		}
		if p0.None {
			return
		}
		tag := fmt.Sprintf("SetRunId (failover to a new replication id), target connection died after request %d of %d, the tool's own repetition ended with error=%v", k, R, opErr)
		switch {
		case p1.None:
			fs = append(fs, failure{"position-lost:setrunid", fmt.Sprintf("%s: a start before the operation resumes at offset %d (db %d); a start afterwards finds no position", tag, p0.Offset, p0.DB)})
		case p1.Offset < p0.Offset:
			fs = append(fs, failure{"position-regressed:setrunid", fmt.Sprintf("%s: resume offset was %d (db %d), afterwards %d (db %d)", tag, p0.Offset, p0.DB, p1.Offset, p1.DB)})
		case p1.DB != p0.DB:
			fs = append(fs, failure{"position-moved-to-other-db:setrunid", fmt.Sprintf("%s: the resume position %d was held in target db %d, afterwards the start finds it (%d) in db %d", tag, p0.Offset, p0.DB, p1.Offset, p1.DB)})
		}
	}
	judge(s0.SnapshotKS(), R, nil)
	s0.Close()
	var wg sync.WaitGroup
	for k := 1; k < R; k++ {
		wg.Add(1)
		go func(k int) {
			defer wg.Done()
			s, err := mk()
			if err != nil {
				mu.Lock()
				inconc = "seed: " + err.Error()
				mu.Unlock()
				return
			}
			defer s.Close()
			_, opErr := setRunID(c, s, k)
			judge(s.SnapshotKS(), k, opErr)
		}(k)
	}
	wg.Wait()
	evals += R - 1
	facts["op:setrunid"] = true
	facts["p0-exists"] = !p0.None
	facts["setrunid:checkpoints-in-several-dbs"] = len(c.Entries) >= 2
	return fs, inconc, facts, evals
}

func checkSetRunID(t pbt.TB, c Case) {
	st := pbt.For(prop)
	st.Case()
	cj := pbt.JSON(c)
	fs, inconc, facts, evals := runSetRunID(c)
	st.Eval(evals)
	st.Fault(evals)
	if inconc != "" && len(fs) == 0 {
		st.Inconc(inconc)
		return
	}
	for k, v := range facts {
		st.ClassIf(v, k)
	}
	if facts["p0-exists"] {
		st.NonTrivial(cj)
	} else {
		st.Sample(cj)
	}
	for _, f := range fs {
		st.Fail(t, f.sig, f.msg, cj, nil)
	}
}

func TestC17SetRunId(t *testing.T) {
	rapid.Check(t, func(t *rapid.T) { checkSetRunID(t, genSetRunIDCase(t)) })
}
