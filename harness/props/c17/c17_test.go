// C17 — resume bookkeeping maintenance never loses the live resume position.
package c17

import (
	"context"
	"encoding/json"
	"fmt"
	"os"
	"strconv"
	"testing"
	"time"

	"pgregory.net/rapid"

	"github.com/mgtv-tech/redis-GunYu/cmd"
	"github.com/mgtv-tech/redis-GunYu/config"
	"github.com/mgtv-tech/redis-GunYu/pkg/redis/checkpoint"
	"github.com/mgtv-tech/redis-GunYu/pkg/redis/client"

	"verifharness/fake"
	"verifharness/gen"
	"verifharness/pbt"
	"verifharness/ref/resp"
)

const prop = "C17"

func TestMain(m *testing.M) { pbt.Main(m) }

// Entry is one checkpoint entry (a set of <runid>_* fields) in one database of the target.
type Entry struct {
	DB       int    `json:"db"`
	Name     string `json:"name"`  // checkpoint key
	RunID    string `json:"runid"` // "A" "B" "C" are expanded to 40-char ids
	Offset   int64  `json:"offset"`
	AgeMin   int    `json:"ageMin"`             // minutes since last modification; -1 = entry written by a batch (no mtime field)
	NoRunID  bool   `json:"noRunId,omitempty"`  // offset only (should not exist after fix 5e104a3; kept out of generation)
	OtherKey bool   `json:"otherKey,omitempty"` // an unrelated business key lives in that db too
}

type Case struct {
	Entries  []Entry           `json:"entries"`
	Hash     map[string]string `json:"hash"`     // runid letter -> checkpoint name in the checkpoint hash (db 0)
	Op       string            `json:"op"`       // rename | newrunid | gc
	OldName  string            `json:"oldName"`  // configured checkpoint name before
	NewName  string            `json:"newName"`  // configured checkpoint name after (rename)
	OldIDs   []string          `json:"oldIds"`   // ids the source reported before: [id1,id2]
	NewIDs   []string          `json:"newIds"`   // ids the source reports now
	StaleMin int               `json:"staleMin"` // staleness threshold in minutes (gc)
	ExtraDBs []int             `json:"extraDbs"` // databases that merely hold business keys
	// Other: a second source (another shard of the same link, replication ids S / T) keeps its resume position under the same
	// checkpoint key: the operation is carried out for the first source only, the second one must find its position afterwards
	Other []Entry `json:"other,omitempty"`
}

func rid(l string) string {
	if l == "" || l == "?" {
		return l
	}
	b := make([]byte, 40)
	for i := range b {
		b[i] = l[0] + 32 // lower-case letter repeated
	}
	return string(b)
}

func genCase(t *rapid.T) Case {
	c := Case{OldName: "redis-gunyu-checkpoint", NewName: "redis-gunyu-checkpoint", Hash: map[string]string{}}
	c.Op = rapid.SampledFrom([]string{"rename", "newrunid", "gc", "gc"}).Draw(t, "op")
	c.OldIDs = []string{"A", rapid.SampledFrom([]string{"B", "Z"}).Draw(t, "oldid2")}
	c.NewIDs = c.OldIDs
	c.StaleMin = rapid.SampledFrom([]int{5, 60, 720}).Draw(t, "staleMin")
	switch c.Op {
	case "rename":
		c.NewName = rapid.SampledFrom([]string{"redis-gunyu-checkpoint-x1", "redis-gunyu-checkpoint{abc}"}).Draw(t, "newName")
	case "newrunid":
		// failover: the promoted replica reports a new id and the old one as id2
		c.NewIDs = []string{"C", "A"}
	}
	n := rapid.IntRange(0, 5).Draw(t, "nentries")
	used := map[string]bool{}
	usedOff := map[string]bool{}
	for i := 0; i < n; i++ {
		e := Entry{DB: rapid.SampledFrom([]int{0, 0, 1, 2, 5, 15}).Draw(t, "db"), Name: c.OldName}
		// live entries belong to the id the source currently reports (older generations are migrated or deleted by
		// every start); D and E are stale ids no source reports any more
		e.RunID = rapid.SampledFrom([]string{"A", "A", "A", "D", "E"}).Draw(t, "rid")
		if used[fmt.Sprintf("%d/%s", e.DB, e.RunID)] {
			continue
		}
		used[fmt.Sprintf("%d/%s", e.DB, e.RunID)] = true
		e.Offset = rapid.OneOf(rapid.Int64Range(1, 100000), rapid.SampledFrom([]int64{-1, 1, 7777, 7777})).Draw(t, "offset")
		// one history stores a given offset in one database only (the connection changes database by sending a SELECT,
		// which advances the offset): equal positive offsets in two databases are not a state the tool produces
		for usedOff[fmt.Sprintf("%s/%d", e.RunID, e.Offset)] && e.Offset > 0 {
			e.Offset++
		}
		usedOff[fmt.Sprintf("%s/%d", e.RunID, e.Offset)] = true
		// ages are kept >= 1 minute away from the staleness threshold: the code reads the wall clock
		e.AgeMin = rapid.SampledFrom([]int{-1, 0, 1, c.StaleMin - 2, c.StaleMin + 2, c.StaleMin * 3}).Draw(t, "age")
		if e.AgeMin < -1 {
			e.AgeMin = 0
		}
		c.Entries = append(c.Entries, e)
		// the tool registers a replication id in the checkpoint hash before it ever stores a position for it; only stale ids
		// (no longer reported by a source) may have lost their hash entry (gc removes it last)
		if e.RunID == c.OldIDs[0] || e.RunID == c.OldIDs[1] || rapid.IntRange(0, 3).Draw(t, "inHash") != 0 {
			c.Hash[e.RunID] = c.OldName
		}
	}
	if rapid.IntRange(0, 2).Draw(t, "otherSource") == 0 {
		for i, k := 0, rapid.IntRange(1, 2).Draw(t, "nother"); i < k; i++ {
			e := Entry{DB: rapid.SampledFrom([]int{0, 1, 2, 3, 5}).Draw(t, "odb"), Name: c.OldName, RunID: "S", Offset: rapid.Int64Range(1, 100000).Draw(t, "ooffset") + int64(i)*100000}
			if used[fmt.Sprintf("%d/%s", e.DB, e.RunID)] {
				continue
			}
			used[fmt.Sprintf("%d/%s", e.DB, e.RunID)] = true
			e.AgeMin = rapid.SampledFrom([]int{-1, 0, 1, c.StaleMin - 2, c.StaleMin + 2, c.StaleMin * 3}).Draw(t, "oage")
			if e.AgeMin < -1 {
				e.AgeMin = 0
			}
			c.Other = append(c.Other, e)
		}
		c.Hash["S"] = c.OldName
	}
	if rapid.Bool().Draw(t, "extra") {
		c.ExtraDBs = rapid.SliceOfNDistinct(rapid.IntRange(0, 15), 1, 3, rapid.ID[int]).Draw(t, "extraDbs")
	}
	return c
}

// seed writes the initial bookkeeping state with the tool's own field layout.
func seed(srv *fake.Server, c Case, now time.Time) error {
	cli, err := client.NewRedis(gen.RedisCfg(srv.Addr()))
	if err != nil {
		return err
	}
	defer cli.Close()
	for _, e := range append(append([]Entry(nil), c.Entries...), c.Other...) {
		if _, err := cli.Do("select", e.DB); err != nil {
			return err
		}
		cp := &checkpoint.CheckpointInfo{Key: e.Name, RunId: rid(e.RunID), Version: "1", Offset: e.Offset}
		args := []interface{}{e.Name, cp.RunIdKey(), cp.RunId, cp.VersionKey(), cp.Version, cp.OffsetKey(), strconv.FormatInt(e.Offset, 10)}
		if e.AgeMin >= 0 {
			args = append(args, cp.MTimeKey(), now.Add(-time.Duration(e.AgeMin)*time.Minute).UnixNano())
		}
		if _, err := cli.Do("hset", args...); err != nil {
			return err
		}
	}
	for _, db := range c.ExtraDBs {
		cli.Do("select", db)
		cli.Do("set", "business:key", "v")
	}
	for l, name := range c.Hash {
		if err := checkpoint.SetCheckpointHash(cli, rid(l), name); err != nil {
			return err
		}
	}
	return nil
}

type pos struct {
	None   bool
	Offset int64
	DB     int
	RunID  string
}

func ids(ls []string) []string {
	out := make([]string, len(ls))
	for i, l := range ls {
		out[i] = rid(l)
	}
	return out
}

// cleanStart: what a start with the given configuration finds on a copy of the keyspace (UpdateCheckpoint, then GetCheckpoint as StartPoint does).
func cleanStart(ks *fake.Keyspace, name string, idl []string) (pos, error) {
	s2 := fake.NewServer()
	defer s2.Close()
	s2.Lock()
	s2.KS = ks.Clone()
	s2.Unlock()
	return cleanStartOn(s2, name, idl)
}

// cleanStartOn performs the start-up maintenance and the start point lookup on a live double (its state is changed as a start changes it).
func cleanStartOn(s2 *fake.Server, name string, idl []string) (pos, error) {
	cli, err := client.NewRedis(gen.RedisCfg(s2.Addr()))
	if err != nil {
		return pos{}, err
	}
	defer cli.Close()
	if err := checkpoint.UpdateCheckpoint(cli, name, ids(idl)); err != nil {
		return pos{}, err
	}
	cpi, db, err := checkpoint.GetCheckpoint(cli, name, ids(idl))
	if err != nil {
		return pos{}, err
	}
	if cpi == nil || cpi.RunId == "?" || cpi.Offset < 0 {
		return pos{None: true}, nil
	}
	return pos{Offset: cpi.Offset, DB: db, RunID: cpi.RunId}, nil
}

type failure struct{ sig, msg string }

func setGlobalConfig(srcAddrs []string, out string, stale time.Duration) {
	g := config.GetSyncerConfig()
	in := gen.RedisCfgN(srcAddrs)
	g.Input = &config.InputConfig{Redis: &in}
	o := gen.RedisCfg(out)
	g.Output = &config.OutputConfig{Redis: &o}
	g.Channel = &config.ChannelConfig{Type: config.ChannelTypeMemory, StaleCheckpointDuration: stale}
}

// runOp executes the maintenance operation; the target dies after `crashAt` requests (0 = never).
func runOp(c Case, srv *fake.Server, sources []*fake.Server, crashAt int) (reqs int, err error) {
	before := srv.ReqCount()
	if crashAt > 0 {
		srv.CrashAfter(crashAt)
	}
	defer func() {
		srv.CrashAfter(0)
		if srv.Crashed() {
			srv.Restart()
		}
	}()
	switch c.Op {
	case "rename", "newrunid":
		cli, e := client.NewRedis(gen.RedisCfg(srv.Addr()))
		if e != nil {
			return 0, e
		}
		err = checkpoint.UpdateCheckpoint(cli, c.NewName, ids(c.NewIDs))
		cli.Close()
	case "gc":
		var addrs []string
		for _, s := range sources {
			addrs = append(addrs, s.Addr())
		}
		setGlobalConfig(addrs, srv.Addr(), time.Duration(c.StaleMin)*time.Minute)
		cmd.NewSyncerCmd().VerifGcStaleCheckpoint(context.Background())
	}
	srv.WaitIdle(time.Second)
	return srv.ReqCount() - before, err
}

func run(c Case) (fs []failure, inconc string, facts map[string]bool, evals int) {
	gen.QuietLogs()
	facts = map[string]bool{}
	now := time.Now()
	// the source(s) report the (new) ids
	src := fake.NewServer()
	defer src.Close()
	src.RunID = rid(c.NewIDs[0])
	src.InfoHook = func(sec string) []byte {
		return []byte(fmt.Sprintf("# Replication\r\nrole:master\r\nmaster_replid:%s\r\nmaster_replid2:%s\r\nmaster_repl_offset:1\r\nsecond_repl_offset:-1\r\n", rid(c.NewIDs[0]), rid(c.NewIDs[1])))
	}
	otherIDs := []string{"S", "T"}
	sources := []*fake.Server{src}
	if len(c.Other) > 0 {
		src2 := fake.NewServer()
		defer src2.Close()
		src2.RunID = rid("S")
		src2.InfoHook = func(sec string) []byte {
			return []byte(fmt.Sprintf("# Replication\r\nrole:master\r\nmaster_replid:%s\r\nmaster_replid2:%s\r\nmaster_repl_offset:1\r\nsecond_repl_offset:-1\r\n", rid("S"), rid("T")))
		}
		sources = append(sources, src2)
	}
	var initKS *fake.Keyspace
	build := func() (*fake.Server, error) {
		s := fake.NewServer()
		if initKS != nil {
			s.Lock()
			s.KS = initKS.Clone()
			s.Unlock()
			return s, nil
		}
		if err := seed(s, c, now); err != nil {
			s.Close()
			return nil, err
		}
		s.WaitIdle(time.Second)
		return s, nil
	}
	base, err := build()
	if err != nil {
		return nil, "seed: " + err.Error(), facts, 0
	}
	// the tool has been running with the old configuration: its start-up maintenance has been applied to the state
	if cli, err := client.NewRedis(gen.RedisCfg(base.Addr())); err == nil {
		err = checkpoint.UpdateCheckpoint(cli, c.OldName, ids(c.OldIDs))
		if err == nil && len(c.Other) > 0 {
			err = checkpoint.UpdateCheckpoint(cli, c.OldName, ids(otherIDs))
		}
		cli.Close()
		if err != nil {
			base.Close()
			return nil, "normalising the initial state: " + err.Error(), facts, 0
		}
	}
	initKS = base.SnapshotKS()
	p0, err := cleanStart(initKS, c.OldName, c.OldIDs)
	if err != nil {
		base.Close()
		return nil, "clean start on the initial state: " + err.Error(), facts, 0
	}
	var p0o pos
	if len(c.Other) > 0 {
		p0o, err = cleanStart(initKS, c.OldName, otherIDs)
		if err != nil {
			base.Close()
			return nil, "clean start of the second source on the initial state: " + err.Error(), facts, 0
		}
		facts["second-source-shares-the-key"] = !p0o.None
	}
	R, _ := runOp(c, base, sources, 0)
	evals++
	// the uninterrupted operation is judged like a prefix of length R
	finalKS := base.SnapshotKS()
	base.Close()
	dbsWithCp := map[int]bool{}
	for _, e := range c.Entries {
		dbsWithCp[e.DB] = true
	}
	judge := func(ks *fake.Keyspace, k int) {
		if len(c.Other) > 0 && !p0o.None {
			// the second source starts next (with the same configured name); its ids did not change
			p1o, err := cleanStart(ks, c.NewName, otherIDs)
			tag := fmt.Sprintf("%s carried out for the first source, target died after request %d of %d", c.Op, k, R)
			switch {
			case err != nil:
				inconc = fmt.Sprintf("clean start of the second source after prefix %d: %v", k, err)
				return
			case p1o.None:
				fs = append(fs, failure{"other-source-position-lost:" + c.Op, fmt.Sprintf("%s: the second source (ids S/T, same checkpoint key) resumed at offset %d (db %d) before; afterwards its start finds no position", tag, p0o.Offset, p0o.DB)})
			case p1o.Offset < p0o.Offset:
				fs = append(fs, failure{"other-source-position-regressed:" + c.Op, fmt.Sprintf("%s: the second source resumed at %d (db %d) before, afterwards at %d (db %d)", tag, p0o.Offset, p0o.DB, p1o.Offset, p1o.DB)})
			case p1o.DB != p0o.DB:
				fs = append(fs, failure{"other-source-position-moved-to-other-db:" + c.Op, fmt.Sprintf("%s: the second source's position %d was held in db %d, afterwards its start finds %d in db %d", tag, p0o.Offset, p0o.DB, p1o.Offset, p1o.DB)})
			}
		}
		p1, err := cleanStart(ks, c.NewName, c.NewIDs)
		if err != nil {
			inconc = fmt.Sprintf("clean start after prefix %d: %v", k, err)
			return
		}
		if p0.None {
			return
		}
		tag := fmt.Sprintf("%s, target died after request %d of %d", c.Op, k, R)
		switch {
		case p1.None:
			fs = append(fs, failure{"position-lost:" + c.Op, fmt.Sprintf("%s: a start before the operation resumes at offset %d (db %d); a start afterwards finds no position", tag, p0.Offset, p0.DB)})
		case p1.Offset < p0.Offset:
			fs = append(fs, failure{"position-regressed:" + c.Op, fmt.Sprintf("%s: resume offset was %d (db %d), afterwards %d (db %d)", tag, p0.Offset, p0.DB, p1.Offset, p1.DB)})
		case p1.DB != p0.DB:
			fs = append(fs, failure{"position-moved-to-other-db:" + c.Op, fmt.Sprintf("%s: the resume position %d was held in target db %d, afterwards the start finds it (%d) in db %d: replay would continue in the wrong database", tag, p0.Offset, p0.DB, p1.Offset, p1.DB)})
		}
	}
	judge(finalKS, R)
	for k := 1; k < R && inconc == "" && len(fs) == 0; k++ {
		s, err := build()
		if err != nil {
			return fs, "seed: " + err.Error(), facts, evals
		}
		runOp(c, s, sources, k)
		evals++
		judge(s.SnapshotKS(), k)
		s.Close()
		if len(dbsWithCp) >= 2 {
			facts["crash-inside-op-with-checkpoints-in-several-dbs"] = true
		}
	}
	// gc: the newest entry of every id a source still reports survives
	if c.Op == "gc" && inconc == "" {
		newest := map[string]int64{}
		for _, e := range c.Entries {
			if (e.RunID == c.NewIDs[0] || e.RunID == c.NewIDs[1]) && c.Hash[e.RunID] != "" && e.Offset > 0 {
				if e.Offset > newest[e.RunID] {
					newest[e.RunID] = e.Offset
				}
			}
		}
		for l, off := range newest {
			found := false
			for db := range finalKS.DBs {
				if e := finalKS.DBs[db][c.OldName]; e != nil && e.V.Type == "hash" {
					if v, ok := e.V.Hash[rid(l)+"_offset"]; ok && string(v) == strconv.FormatInt(off, 10) {
						found = true
					}
				}
			}
			if !found {
				fs = append(fs, failure{"gc-removed-newest-checkpoint-of-reported-id", fmt.Sprintf("gc removed the newest checkpoint (offset %d) of replication id %s which a source still reports", off, l)})
			}
		}
	}
	facts["op:"+c.Op] = true
	facts["p0-exists"] = !p0.None
	return fs, inconc, facts, evals
}

func check(t pbt.TB, c Case) {
	st := pbt.For(prop)
	st.Case()
	cj := pbt.JSON(c)
	fs, inconc, facts, evals := run(c)
	st.Eval(evals)
	st.Fault(evals)
	if inconc != "" && len(fs) == 0 {
		st.Inconc(inconc)
		return
	}
	for k, v := range facts {
		st.ClassIf(v, k)
	}
	if facts["crash-inside-op-with-checkpoints-in-several-dbs"] && facts["p0-exists"] {
		st.NonTrivial(cj)
	} else {
		st.Sample(cj)
	}
	for _, f := range fs {
		st.Fail(t, f.sig, f.msg, cj, nil)
	}
}

func TestC17(t *testing.T) {
	rapid.Check(t, func(t *rapid.T) { check(t, genCase(t)) })
}

func TestC17Replay(t *testing.T) {
	if os.Getenv("VERIF_REPLAY") == "" {
		t.Skip("no VERIF_REPLAY")
	}
	v, err := pbt.LoadReplay()
	if err != nil {
		t.Fatal(err)
	}
	var c Case
	if err := json.Unmarshal(v.Case, &c); err != nil {
		t.Fatal(err)
	}
	if c.Op == "" {
		t.Skip("no such case type") // a case of the format-switch unit
	}
	if c.Op == "setrunid" {
		checkSetRunID(t, c)
		return
	}
	for i := 0; i < 5; i++ {
		check(t, c) // the tool iterates databases in map order: repeat
	}
}

var _ = resp.Cmd
