// C17, second unit — switching the bidirectional recovery format.
//
// The initial target state is produced by a real bidirectional link that ran in one replay mode (sync = per-slot latest
// records; pipeline / parallel = frontier + commit journal): initial full sync, a generated number of committed units,
// a stop with or without a frontier flush, optionally a later full resynchronisation. The operation is the start-up of
// the link with ANOTHER replay mode (namespace migration). Every prefix of the operation's request sequence is executed:
// the target dies after request k; the next start (same new mode) must find a resume position not smaller than the one a
// start with the old mode would have found on the initial state - or none only if none existed - and must not fail.
package c17

import (
	"bufio"
	"context"
	"encoding/json"
	"fmt"
	"io"
	"os"
	"strings"
	"sync"
	"testing"
	"time"

	"pgregory.net/rapid"

	"verifharness/bsync"
	"verifharness/fake"
	"verifharness/gen"
	"verifharness/pbt"
	"verifharness/ref/rdbgen"
	"verifharness/ref/resp"
)

type BCase struct {
	From     string `json:"from"` // replay mode the namespace was created with
	To       string `json:"to"`   // replay mode of the next start
	Units    int    `json:"units"`
	Txn      []bool `json:"txn"`
	LingerMs int    `json:"lingerMs"` // how long the first link stays up after its last unit (>= 100 ms: the frontier is flushed)
	Resync   bool   `json:"resync"`   // a full resynchronisation (snapshot ahead of the last unit) happened before the stop
	Batch    uint   `json:"batch"`
}

func genBCase(t *rapid.T) BCase {
	modes := []string{"sync", "pipeline", "parallel"}
	c := BCase{From: rapid.SampledFrom(modes).Draw(t, "from"), To: rapid.SampledFrom(modes).Draw(t, "to")}
	if c.To == c.From {
		c.To = modes[(map[string]int{"sync": 0, "pipeline": 1, "parallel": 2}[c.From]+1)%3]
	}
	c.Units = rapid.IntRange(0, 5).Draw(t, "units")
	for i := 0; i < c.Units; i++ {
		c.Txn = append(c.Txn, rapid.Bool().Draw(t, "txn"))
	}
	c.LingerMs = rapid.SampledFrom([]int{0, 0, 130}).Draw(t, "linger")
	c.Resync = rapid.IntRange(0, 2).Draw(t, "resync") == 0
	c.Batch = uint(rapid.SampledFrom([]int{1, 4}).Draw(t, "batch"))
	return c
}

var bids = []string{"6666666666666666666666666666666666666666", ""}

const bx0 = int64(1000)

type bpos struct {
	None   bool
	Offset int64
	Err    error
}

func bStart(tgt *bsync.Target, mode string, batch uint) bpos {
	ro, _, err := bsync.StartUp(tgt, bsync.LinkCfg{Mode: mode, Batch: batch}, bids)
	if err != nil {
		return bpos{Err: fmt.Errorf("start-up: %w", err)}
	}
	ctx, cancel := context.WithTimeout(context.Background(), 20*time.Second)
	defer cancel()
	sp, err := ro.StartPoint(ctx, bids)
	if err != nil {
		return bpos{Err: fmt.Errorf("start point: %w", err)}
	}
	if sp.IsInitial() || sp.RunId != bids[0] {
		return bpos{None: true}
	}
	return bpos{Offset: sp.Offset}
}

func runB(c BCase) (fs []failure, inconc string, facts map[string]bool, evals int) {
	gen.QuietLogs()
	facts = map[string]bool{}
	srv := fake.NewServer()
	defer srv.Close()
	srv.GenericWrites = true
	tgt := &bsync.Target{Std: srv}
	w := bsync.NewWorld(tgt)

	// ---- the initial state, written by a real link in the old mode
	var stream []byte
	stream = append(stream, resp.CmdS("SELECT", "0")...)
	var ends []int64
	for i := 0; i < c.Units; i++ {
		if c.Txn[i] {
			stream = append(stream, resp.CmdS("MULTI")...)
			stream = append(stream, resp.CmdS("SET", fmt.Sprintf("k%d", i), fmt.Sprintf("u%d", i))...)
			stream = append(stream, resp.CmdS("SET", fmt.Sprintf("j%d", i), fmt.Sprintf("u%d", i))...)
			stream = append(stream, resp.CmdS("EXEC")...)
		} else {
			stream = append(stream, resp.CmdS("SET", fmt.Sprintf("k%d", i), fmt.Sprintf("u%d", i))...)
		}
		ends = append(ends, bx0+int64(len(stream)))
	}
	lc := bsync.LinkCfg{Mode: c.From, Batch: c.Batch}
	ro, _, err := bsync.StartUp(tgt, lc, bids)
	if err != nil {
		return nil, "building the initial state: " + err.Error(), facts, 0
	}
	ctx, cancel := context.WithCancel(context.Background())
	defer cancel()
	if sp, err := ro.StartPoint(ctx, bids); err != nil || !sp.IsInitial() {
		return nil, fmt.Sprintf("building the initial state: start point %+v %v", sp, err), facts, 0
	}
	rdbBytes, _ := rdbgen.Build(rdbgen.File{Version: 9, Checksum: true})
	snap := func(at int64) error {
		return ro.Send(ctx, &gen.Reader{R: bufio.NewReader(strings.NewReader(string(rdbBytes))), LeftV: at, RunID: bids[0], Aof: false, SizeV: int64(len(rdbBytes))})
	}
	if err := snap(bx0); err != nil {
		return nil, "building the initial state: snapshot: " + err.Error(), facts, 0
	}
	var mu sync.Mutex
	committed := 0
	srv.Lock()
	srv.OnExec = func(e *fake.LogEntry) {
		if e.Cmd == "set" && e.InTxn && len(e.Args) > 0 && strings.Contains(string(e.Args[0]), ":marker:{") {
			mu.Lock()
			committed++
			mu.Unlock()
		}
	}
	srv.Unlock()
	pr, pw := io.Pipe()
	actx, acancel := context.WithCancel(ctx)
	done := make(chan error, 1)
	go func() {
		done <- ro.Send(actx, &gen.Reader{R: bufio.NewReaderSize(pr, 4096), LeftV: bx0, RunID: bids[0], Aof: true, SizeV: -1})
	}()
	go pw.Write(stream)
	deadline := time.Now().Add(15 * time.Second)
	for {
		mu.Lock()
		n := committed
		mu.Unlock()
		if n >= c.Units {
			break
		}
		if time.Now().After(deadline) {
			acancel()
			pw.Close()
			return nil, "building the initial state: the units were not applied within 15 s", facts, 0
		}
		time.Sleep(500 * time.Microsecond)
	}
	time.Sleep(time.Duration(c.LingerMs) * time.Millisecond)
	acancel()
	select {
	case <-done:
	case <-time.After(15 * time.Second):
		pw.Close()
		return nil, "building the initial state: Send did not return", facts, 0
	}
	pw.Close()
	last := bx0
	if c.Units > 0 {
		last = ends[c.Units-1]
	}
	if c.Resync {
		// the source answered a later connection with a full resynchronisation: the snapshot is ahead of everything replayed
		last += 500
		if err := snap(last); err != nil {
			return nil, "building the initial state: resync snapshot: " + err.Error(), facts, 0
		}
	}
	srv.Lock()
	srv.OnExec = nil
	srv.Unlock()
	srv.DropConns()
	srv.WaitIdle(time.Second)
	init := srv.SnapshotKS()
	restore := func() {
		w.Heal()
		srv.WaitIdle(time.Second)
		srv.Lock()
		srv.KS = init.Clone()
		srv.Unlock()
	}

	// ---- what a start with the old mode finds
	p0 := bStart(tgt, c.From, c.Batch)
	if p0.Err != nil {
		return nil, "clean start (old mode) on the initial state: " + p0.Err.Error(), facts, 0
	}
	facts["p0-exists"] = !p0.None
	if !p0.None && p0.Offset != last {
		// the link was stopped gracefully: everything it committed (or the later snapshot) is the position
		facts["p0-behind-last-commit"] = true
	}

	// ---- the uninterrupted operation: how many requests is it ?
	restore()
	before := w.Total()
	pfull := bStart(tgt, c.To, c.Batch)
	R := int(w.Total() - before)
	evals++
	judge := func(p1 bpos, k int) {
		tag := fmt.Sprintf("format switch %s -> %s (units %d, frontier flushed %v, resync %v), target died after request %d of %d", c.From, c.To, c.Units, c.LingerMs >= 100, c.Resync, k, R)
		switch {
		case p1.Err != nil && (c.Units == 0 || c.Resync) && strings.Contains(p1.Err.Error(), "no bisync authoritative migration seed found"):
			// (after a full resynchronisation the namespace holds nothing but the root checkpoint either: its completion drops the journal
			// and the frontier, which describe units that lie before the snapshot)
			// known finding: a namespace that holds nothing but the root checkpoint (full sync done, no unit committed yet) cannot be migrated
			fs = append(fs, failure{"start-fails-after-format-switch:only-root-checkpoint", fmt.Sprintf("%s: the next start fails on a healthy target: %v", tag, p1.Err)})
		case p1.Err != nil:
			fs = append(fs, failure{"start-fails-after-format-switch", fmt.Sprintf("%s: the next start fails on a healthy target: %v", tag, p1.Err)})
		case p0.None:
		case p1.None:
			fs = append(fs, failure{"position-lost:format-switch", fmt.Sprintf("%s: a start before the operation resumes at offset %d; a start afterwards finds no position", tag, p0.Offset)})
		case p1.Offset < p0.Offset:
			fs = append(fs, failure{"position-regressed:format-switch", fmt.Sprintf("%s: resume offset was %d, afterwards %d", tag, p0.Offset, p1.Offset)})
		}
	}
	judge(pfull, R)
	for k := 0; k < R && len(fs) == 0; k++ {
		restore()
		w.Arm(k)
		_ = bStart(tgt, c.To, c.Batch) // dies somewhere inside
		w.Heal()
		srv.WaitIdle(time.Second)
		p1 := bStart(tgt, c.To, c.Batch)
		evals++
		judge(p1, k)
	}
	fam := func(m string) string {
		if m == "sync" {
			return "latest"
		}
		return "frontier"
	}
	facts["family-change"] = fam(c.From) != fam(c.To)
	facts["from:"+c.From] = true
	return fs, "", facts, evals
}

func checkB(t pbt.TB, c BCase) {
	st := pbt.For(prop)
	st.Case()
	cj := pbt.JSON(c)
	fs, inconc, facts, evals := runB(c)
	st.Eval(evals)
	st.Fault(evals)
	if inconc != "" && len(fs) == 0 {
		st.Inconc(inconc)
		return
	}
	for k, v := range facts {
		st.ClassIf(v, "bisync:"+k)
	}
	if facts["family-change"] && facts["p0-exists"] && c.Units > 0 {
		st.NonTrivial(cj)
	} else {
		st.Sample(cj)
	}
	for _, f := range fs {
		st.Fail(t, f.sig, f.msg, cj, nil)
	}
}

func TestC17Bisync(t *testing.T) {
	rapid.Check(t, func(t *rapid.T) { checkB(t, genBCase(t)) })
}

func TestC17BisyncReplay(t *testing.T) {
	if os.Getenv("VERIF_REPLAY") == "" {
		t.Skip("no VERIF_REPLAY")
	}
	v, err := pbt.LoadReplay()
	if err != nil {
		t.Fatal(err)
	}
	var c BCase
	if err := json.Unmarshal(v.Case, &c); err != nil || c.From == "" {
		t.Skip("no such case type")
	}
	checkB(t, c)
}
