// C03 — a full sync reproduces the source snapshot's dataset on the target.
package c03

import (
	"context"
	"encoding/json"
	"fmt"
	"os"
	"strings"
	"testing"
	"time"

	"pgregory.net/rapid"

	"verifharness/fake"
	"verifharness/fullsync"
	"verifharness/gen"
	"verifharness/pbt"
	"verifharness/ref/rdbgen"
)

const prop = "C03"

func TestMain(m *testing.M) { pbt.Main(m) }

type Case struct {
	File rdbgen.File  `json:"file"`
	Cfg  fullsync.Cfg `json:"cfg"`
}

func genCase(t *rapid.T) Case {
	o := gen.DatasetOpts{NowMs: time.Now().UnixNano() / 1e6, Big: rapid.IntRange(0, 3).Draw(t, "big") == 0}
	if k := os.Getenv("VERIF_C03_KINDS"); k != "" {
		o.Kinds = strings.Split(k, ",")
	}
	if pbt.Thorough() {
		o.MaxKeys, o.MaxElems = 24, 40
	}
	f := gen.GenFile(t, o)
	c := Case{File: f, Cfg: fullsync.GenCfg(t)}
	c.Cfg.Normalize(c.File.Items)
	return c
}

type failure struct{ sig, msg string }

type verdict struct {
	fails  []failure
	inconc string
	facts  map[string]bool
	hist   any
}

func streamTargetOK(c Case) bool {
	// streams need a target that knows XADD/XSETID semantics of the generated fields: Redis >= 5
	return c.Cfg.TargetVer >= "5"
}

func run(c Case) verdict {
	st := pbt.For(prop)
	st.Eval(1)
	v := verdict{facts: map[string]bool{}}
	data, metas := rdbgen.Build(c.File)
	srv := fake.NewServer()
	defer srv.Close()
	fullsync.Register(srv, metas)
	fullsync.RefuseRestores(c.Cfg, srv, metas)
	ctx, cancel := context.WithTimeout(context.Background(), 60*time.Second)
	defer cancel()
	err, _ := fullsync.Run(c.Cfg, srv, data, ctx, nil)
	log, reqs := srv.SnapshotLog()
	tail := reqs
	if len(tail) > 60 {
		tail = tail[len(tail)-60:]
	}
	v.hist = map[string]any{"send_err": fmt.Sprint(err), "rdb_len": len(data), "last_requests": tail}
	if ctx.Err() != nil {
		v.inconc = "snapshot replay did not finish within 60 s"
		return v
	}
	if err != nil && c.Cfg.BadFormatEvery > 0 && strings.Contains(err.Error(), "Bad data format") {
		// the target refused a payload and the tool stopped: the replay did not complete, the property claims nothing
		v.facts["stopped-on-refused-payload"] = true
		return v
	}
	if err != nil {
		v.fails = append(v.fails, failure{"replay-failed:" + errClass(err), fmt.Sprintf("replay of a valid snapshot failed: %v", err)})
		return v
	}
	v.facts["target-refuses-some-payloads"] = c.Cfg.BadFormatEvery > 0
	for _, m := range fullsync.CheckRestorePayloads(c.Cfg, srv, metas) {
		v.fails = append(v.fails, failure{m.Sig, m.Msg})
	}
	now := time.Now().UnixNano() / 1e6
	for _, m := range fullsync.CompareKeyspace(c.Cfg, srv.SnapshotKS(), metas, c.File.Items, now, nil) {
		v.fails = append(v.fails, failure{m.Sig, m.Msg})
	}
	// measured facts
	restoreKeys := map[string]bool{}
	srv.Lock()
	for _, rc := range srv.RestoreSeen {
		restoreKeys[string(rc.Key)] = true
	}
	srv.Unlock()
	hsetPerKey := map[string]int{}
	for _, e := range log {
		switch e.Cmd {
		case "rpush", "sadd", "zadd", "hset", "xadd", "set":
			if len(e.Args) > 0 && !gen.IsReservedKey(e.Args[0]) {
				v.facts["expansion-path"] = true
			}
		}
		if e.Cmd == "exists" && len(e.Args) > 0 {
			hsetPerKey[string(e.Args[0])]++
		}
	}
	v.facts["restore-path"] = len(restoreKeys) > 0
	for _, it := range c.File.Items {
		switch it.Enc {
		case rdbgen.TListZL, rdbgen.TZSetZL, rdbgen.THashZL, rdbgen.TQuicklist, rdbgen.TQuicklist2, rdbgen.THashLP, rdbgen.TZSetLP, rdbgen.TSetLP, rdbgen.TSetIntset:
			for _, e := range allElems(it) {
				if n, ok := rdbgen.CanonInt(e); ok && (n < 0 || n >= 1<<23 || n < -(1<<23)) {
					v.facts["compact-int-negative-or-wide"] = true
				}
			}
		}
		if it.Kind == "hash" && it.Enc == rdbgen.THash && c.Cfg.ChunkBytes > 0 && len(it.H) > 2 {
			sz := 0
			for _, h := range it.H {
				sz += len(h.F) + len(h.V) + 2
			}
			if sz > c.Cfg.ChunkBytes {
				v.facts["split-value"] = true
			}
		}
		if it.UnknownLen {
			v.facts["unknown-length-compact"] = true
		}
		if it.Kind == "stream" {
			v.facts["stream"] = true
		}
	}
	return v
}

func allElems(it rdbgen.Item) [][]byte {
	var out [][]byte
	for _, e := range it.Elems {
		out = append(out, e)
	}
	for _, h := range it.H {
		out = append(out, h.F, h.V)
	}
	for _, z := range it.Z {
		out = append(out, z.Member)
	}
	return out
}

func errClass(err error) string {
	s := err.Error()
	for _, k := range []string{"WRONGTYPE", "DUMP payload", "syntax error", "BUSYKEY", "not an integer", "Invalid stream ID", "equal or smaller", "XSETID", "NOGROUP", "unexpected EOF", "EOF", "checksum", "unknown type", "index out of range", "slice bounds"} {
		if contains(s, k) {
			return k
		}
	}
	if len(s) > 50 {
		s = s[:50]
	}
	return s
}

func contains(s, k string) bool {
	for i := 0; i+len(k) <= len(s); i++ {
		if s[i:i+len(k)] == k {
			return true
		}
	}
	return false
}

func check(t pbt.TB, c Case) {
	st := pbt.For(prop)
	st.Case()
	cj := pbt.JSON(c)
	v := run(c)
	if v.inconc != "" {
		st.Inconc(v.inconc)
		return
	}
	for k, ok := range v.facts {
		st.ClassIf(ok, k)
	}
	if v.facts["expansion-path"] && v.facts["restore-path"] && v.facts["compact-int-negative-or-wide"] {
		st.NonTrivial(cj)
	} else {
		st.Sample(cj)
	}
	for _, f := range v.fails {
		st.Fail(t, f.sig, f.msg, cj, v.hist)
	}
}

func TestC03(t *testing.T) {
	rapid.Check(t, func(t *rapid.T) {
		c := genCase(t)
		if !streamTargetOK(c) {
			// a pre-5 target has no streams: drop stream items instead of generating an impossible migration
			var keep []rdbgen.Item
			for _, it := range c.File.Items {
				if it.Kind != "stream" {
					keep = append(keep, it)
				}
			}
			if len(keep) == 0 {
				t.Skip("only streams for a pre-5 target")
			}
			c.File.Items = keep
		}
		check(t, c)
	})
}

func TestC03Replay(t *testing.T) {
	if os.Getenv("VERIF_REPLAY") == "" {
		t.Skip("no VERIF_REPLAY")
	}
	v, err := pbt.LoadReplay()
	if err != nil {
		t.Fatal(err)
	}
	var c Case
	if err := json.Unmarshal(v.Case, &c); err != nil {
		t.Fatal(err)
	}
	check(t, c)
}
