// C14 — bidirectional replay resumes from the contiguous committed prefix.
//
// A case is a history: a source stream cut into replay units, a target (standalone or 2-3 node cluster with per-node
// latencies, so that parallel lanes complete out of order), a replay mode, and a list of runs. Every run is what the
// tool does after a (re)start - namespace resolution, StartPoint, Send from the offset StartPoint named - and ends by a
// crash of the target after a generated number of requests (start-up requests included), by a graceful stop after a
// generated number of requests, or after everything the source has produced so far was applied and a linger time passed.
// Restarts are "process" (a fresh RedisOutput) or "input" (the same RedisOutput asked for its start point again, what
// RedisInput.Run does after an error), with or without new traffic in between.
//
// Oracle: the target's own execution history. committed(u) = a transaction carrying unit u's marker was executed.
package c14

import (
	"bufio"
	"context"
	"encoding/json"
	"errors"
	"fmt"
	"io"
	"os"
	"sort"
	"strings"
	"sync"
	"sync/atomic"
	"testing"
	"time"

	"pgregory.net/rapid"

	"github.com/mgtv-tech/redis-GunYu/syncer"

	"verifharness/bsync"
	"verifharness/fake"
	"verifharness/gen"
	"verifharness/pbt"
	"verifharness/ref/hashslot"
	"verifharness/ref/rdbgen"
	"verifharness/ref/resp"
)

const prop = "C14"

func TestMain(m *testing.M) { pbt.Main(m) }

var keyPool = []string{"a", "b", "c", "d", "k1", "k2", "k3", "user:1", "user:2", "foo", "bar", "z9", "{t}x", "{t}y"}

type Unit struct {
	Txn  bool  `json:"txn"`
	Keys []int `json:"keys"`           // pool keys written (one SET each); in a cluster all of one slot
	Ping bool  `json:"ping,omitempty"` // a PING precedes the unit
}

type Pause struct {
	AfterUnit int `json:"afterUnit"`
	Ms        int `json:"ms"`
}

type Run struct {
	Restart  string `json:"restart"` // process | input
	Fault    string `json:"fault"`   // none | crash | crash-start | stop
	At       int    `json:"at"`      // crash / stop: after this many requests counted from the start of Send; crash-start: from the start of the run
	FeedTo   int    `json:"feedTo"`  // the source has produced units [0, FeedTo) by the end of this run
	LingerMs int    `json:"lingerMs"`
	// ResyncTo > 0: the source answers this connection with a full resynchronisation under the same replication id: an (empty) snapshot
	// taken behind everything it had produced before this connection (those units therefore count as applied), then the stream from there
	ResyncTo int `json:"resyncTo,omitempty"`
	// LoseReply (crash faults): the last request of the budget is executed by the target but its answer never reaches the tool
	LoseReply bool `json:"loseReply,omitempty"`
}

type Case struct {
	Nodes   int           `json:"nodes"` // 0: standalone
	Bounds  []int         `json:"bounds,omitempty"`
	DelayUs []int         `json:"delayUs,omitempty"`
	Link    bsync.LinkCfg `json:"link"`
	Units   []Unit        `json:"units"`
	Pauses  []Pause       `json:"pauses,omitempty"`
	Runs    []Run         `json:"runs"`
	DelFail int           `json:"delFail,omitempty"` // the n-th deletion of a journal record is answered with an error
	// DelFailMask: bit i set = the (i+1)-th deletion of a journal record (i < 16) is answered with an error, so that an arbitrary subset of
	// journal records survives their collection
	DelFailMask uint16 `json:"delFailMask,omitempty"`
}

func slotOf(i int) uint16 { return hashslot.Slot([]byte(keyPool[i])) }

func genCase(t *rapid.T) Case {
	var c Case
	if rapid.IntRange(0, 2).Draw(t, "cluster") > 0 {
		c.Nodes = rapid.IntRange(2, 3).Draw(t, "nodes")
		bs := rapid.SliceOfNDistinct(rapid.IntRange(2000, 14000), c.Nodes-1, c.Nodes-1, rapid.ID[int]).Draw(t, "bounds")
		sort.Ints(bs)
		c.Bounds = bs
		for i := 0; i < c.Nodes; i++ {
			c.DelayUs = append(c.DelayUs, rapid.SampledFrom([]int{0, 0, 300, 2000, 6000}).Draw(t, "delay"))
		}
	} else {
		c.DelayUs = []int{rapid.SampledFrom([]int{0, 0, 500, 3000}).Draw(t, "delay")}
	}
	c.Link.Mode = rapid.SampledFrom([]string{"sync", "pipeline", "parallel", "parallel"}).Draw(t, "mode")
	c.Link.Batch = uint(rapid.SampledFrom([]int{1, 2, 4, 16}).Draw(t, "batch"))
	if c.Link.Mode == "parallel" {
		c.Link.Parallelism = rapid.IntRange(0, 3).Draw(t, "parallelism")
	}
	nu := rapid.IntRange(2, 14).Draw(t, "nunits")
	for i := 0; i < nu; i++ {
		u := Unit{Txn: rapid.IntRange(0, 3).Draw(t, "txn") == 0, Ping: rapid.IntRange(0, 6).Draw(t, "ping") == 0}
		k := rapid.IntRange(0, len(keyPool)-1).Draw(t, "key")
		u.Keys = []int{k}
		if u.Txn {
			for j := range keyPool {
				if j != k && (c.Nodes == 0 || slotOf(j) == slotOf(k)) && rapid.IntRange(0, 2).Draw(t, "more") == 0 {
					u.Keys = append(u.Keys, j)
				}
			}
		}
		c.Units = append(c.Units, u)
	}
	for i, n := 0, rapid.IntRange(0, 2).Draw(t, "npauses"); i < n; i++ {
		c.Pauses = append(c.Pauses, Pause{AfterUnit: rapid.IntRange(0, nu-1).Draw(t, "pauseAfter"), Ms: rapid.SampledFrom([]int{20, 110, 130}).Draw(t, "pauseMs")})
	}
	nr := rapid.IntRange(1, 4).Draw(t, "nruns")
	fed := 0
	for i := 0; i < nr; i++ {
		r := Run{Restart: "process", Fault: rapid.SampledFrom([]string{"crash", "crash", "crash", "crash-start", "stop", "none"}).Draw(t, "fault")}
		if i > 0 && rapid.IntRange(0, 2).Draw(t, "input") == 0 {
			r.Restart = "input"
		}
		if rapid.IntRange(0, 3).Draw(t, "notraffic") > 0 || i == 0 {
			fed = rapid.IntRange(fed, nu).Draw(t, "feedTo")
		}
		r.FeedTo = fed
		// crash / stop: requests counted from the moment Send starts; crash-start: from the beginning of the run (start-up recovery included)
		if r.Fault == "crash-start" {
			r.At = rapid.IntRange(1, 40).Draw(t, "at")
		} else {
			r.At = rapid.IntRange(1, 7*nu+8).Draw(t, "at")
		}
		r.LingerMs = rapid.SampledFrom([]int{0, 5, 30, 120, 230}).Draw(t, "linger")
		if r.Fault == "crash" || r.Fault == "crash-start" {
			r.LoseReply = rapid.IntRange(0, 2).Draw(t, "loseReply") == 0
		}
		if i > 0 && fed > 0 && rapid.IntRange(0, 5).Draw(t, "resync") == 0 {
			r.ResyncTo = rapid.IntRange(1, 2).Draw(t, "resyncTo")
		}
		c.Runs = append(c.Runs, r)
	}
	if c.Nodes > 0 && rapid.IntRange(0, 3).Draw(t, "laneRace") == 0 {
		// lanes racing from the very first unit: the node that owns the first unit is slow, the others are not, and the first run is cut short
		// by a crash while no frontier has been stored yet
		c.Link.Mode, c.Link.Parallelism = "parallel", rapid.SampledFrom([]int{0, c.Nodes}).Draw(t, "lanes")
		owner := 0
		for owner < len(c.Bounds) && int(slotOf(c.Units[0].Keys[0])) >= c.Bounds[owner] {
			owner++
		}
		for i := range c.DelayUs {
			c.DelayUs[i] = 0
		}
		c.DelayUs[owner] = rapid.SampledFrom([]int{3000, 8000}).Draw(t, "slow")
		c.Runs[0].Fault, c.Runs[0].FeedTo = "crash", nu
		c.Runs[0].At = rapid.IntRange(5, 6*nu).Draw(t, "raceAt")
		for i := range c.Runs {
			if c.Runs[i].FeedTo < nu {
				c.Runs[i].FeedTo = nu
			}
		}
	}
	if c.Nodes > 0 && rapid.IntRange(0, 2).Draw(t, "staleJournal") == 0 {
		// two lanes of unequal speed, then - in the same process - a connection answered with a full resynchronisation a little ahead
		// of the resume point, after which the fast lane again gets ahead of the slow one: journal records of the first numbering are
		// still there when units of the second numbering are committed around a unit that is not
		c.Nodes, c.Bounds = 2, []int{8192}
		fast, slow := -1, -1
		for a := range keyPool {
			for b := range keyPool {
				if slotOf(a) < 8192 && slotOf(b) >= 8192 && slotOf(a)%2 != slotOf(b)%2 {
					fast, slow = a, b
				}
			}
		}
		if fast >= 0 {
			c.Link.Mode, c.Link.Parallelism = "parallel", 2
			c.DelayUs = []int{0, rapid.SampledFrom([]int{8000, 15000}).Draw(t, "sjSlow")}
			c.Units = nil
			for _, k := range []int{fast, slow, fast, fast, fast, fast, fast, fast, slow, fast, fast, slow} {
				c.Units = append(c.Units, Unit{Keys: []int{k}})
			}
			c.Pauses = nil
			nu = len(c.Units)
			c.Runs = []Run{
				{Restart: "process", Fault: "crash", At: rapid.IntRange(22, 34).Draw(t, "sjAt0"), FeedTo: 5},
				{Restart: "input", Fault: rapid.SampledFrom([]string{"stop", "crash"}).Draw(t, "sjFault"), At: rapid.IntRange(5, 16).Draw(t, "sjAt1"), FeedTo: nu, ResyncTo: 1},
			}
		}
	}
	if c.Nodes > 0 && nu >= 5 && rapid.IntRange(0, 5).Draw(t, "quietResync") == 0 {
		// a history with a full resynchronisation after which nothing new arrives before the next restart: the sequence numbering starts
		// over while the recovery records of the earlier units (other slots, higher sequence numbers, lower offsets) are still there
		c.Link.Mode = rapid.SampledFrom([]string{"sync", "sync", "pipeline"}).Draw(t, "qrMode")
		m := rapid.IntRange(3, nu-2).Draw(t, "qrFirst")
		c.Runs = []Run{
			{Restart: "process", Fault: "none", FeedTo: m, LingerMs: 5},
			{Restart: rapid.SampledFrom([]string{"process", "input"}).Draw(t, "qrR1"), Fault: "none", FeedTo: m + 1, ResyncTo: 2, LingerMs: 5},
			{Restart: rapid.SampledFrom([]string{"process", "input"}).Draw(t, "qrR2"), Fault: rapid.SampledFrom([]string{"none", "stop", "crash"}).Draw(t, "qrF2"), At: rapid.IntRange(3, 14).Draw(t, "qrAt"), FeedTo: nu, LingerMs: 5},
		}
	}
	if rapid.IntRange(0, 4).Draw(t, "lostReply") == 0 {
		// the link dies between the target executing a request and the tool reading the answer (most interesting: the EXEC of a unit), and
		// the same process connects again: what the tool remembers is then behind what the target holds
		if rapid.IntRange(0, 2).Draw(t, "lrSync") > 0 {
			c.Link.Mode = "sync"
		}
		c.Pauses = nil
		c.Runs = []Run{
			{Restart: "process", Fault: "crash", LoseReply: true, At: rapid.IntRange(1, 6*nu).Draw(t, "lrAt"), FeedTo: nu},
			{Restart: "input", Fault: rapid.SampledFrom([]string{"none", "crash"}).Draw(t, "lrF2"), LoseReply: true, At: rapid.IntRange(1, 6*nu).Draw(t, "lrAt2"), FeedTo: nu, LingerMs: 5},
		}
	}
	// the last run: everything is produced and applied, then a graceful stop; one more start asks for the final resume point
	c.Runs = append(c.Runs, Run{Restart: rapid.SampledFrom([]string{"process", "input"}).Draw(t, "lastRestart"), Fault: "none", FeedTo: nu, LingerMs: rapid.SampledFrom([]int{0, 30, 150}).Draw(t, "lastLinger")})
	switch rapid.IntRange(0, 7).Draw(t, "delfail") {
	case 0:
		c.DelFail = rapid.IntRange(1, 6).Draw(t, "delFailAt")
	case 1:
		c.DelFailMask = rapid.Uint16().Draw(t, "delFailMask")
	}
	return c
}

type failure struct{ sig, msg string }

const x0 = int64(1000)

var ids = []string{"9999999999999999999999999999999999999999", ""}

type world struct {
	c          Case
	tgt        *bsync.Target
	w          *bsync.World
	stream     []byte
	unitEnd    []int64 // absolute end offset of every unit
	pieces     [][2]int
	byEnd      map[int64]int
	valUnit    map[string]int
	covered    map[int]bool // units whose effect a later snapshot contained
	maybe      map[int]bool // ... of a snapshot whose replay was cut short (its checkpoint may not have been written)
	cmu        sync.Mutex
	sending    atomic.Bool   // a Send is in progress (as opposed to start-up / StartPoint)
	coordSaves atomic.Int64  // frontier saves made while sending (by the coordinator)
	commits    map[int64]int // end offset -> executed marker transactions (maintained by the nodes while a run is in progress)
}

func (wd *world) commitCount(end int64) int {
	wd.cmu.Lock()
	defer wd.cmu.Unlock()
	return wd.commits[end]
}

func build(c Case) *world {
	wd := &world{c: c, byEnd: map[int64]int{}, valUnit: map[string]int{}, commits: map[int64]int{}, covered: map[int]bool{}, maybe: map[int]bool{}}
	if c.Nodes == 0 {
		wd.tgt = &bsync.Target{Std: fake.NewServer()}
	} else {
		cs := fake.NewClusterSet(c.Nodes)
		cs.SetLayout(c.Bounds)
		wd.tgt = &bsync.Target{Set: cs}
	}
	for i, n := range wd.tgt.Nodes() {
		n.GenericWrites = true
		// the cluster recovery scan asks every one of the 16384 slots for its index and latest record: keep the empty answers out of the logs
		n.QuietReq = func(cmd string, args [][]byte, reply string) bool {
			return reply == "[]" && (cmd == "zrangebyscore" || (cmd == "hgetall" && len(args) > 0 && strings.Contains(string(args[0]), ":latest:{")))
		}
		n.OnExec = func(e *fake.LogEntry) {
			if e.Cmd == "hset" && !e.InTxn && len(e.Args) > 0 && strings.HasSuffix(string(e.Args[0]), ":frontier") && wd.sending.Load() {
				wd.coordSaves.Add(1)
			}
			if e.Cmd == "set" && e.InTxn && len(e.Args) >= 2 && strings.Contains(string(e.Args[0]), ":marker:{") {
				var m bsync.Marker
				if json.Unmarshal(e.Args[1], &m) == nil {
					wd.cmu.Lock()
					wd.commits[m.EndOffset]++
					wd.cmu.Unlock()
				}
			}
		}
		if d := c.DelayUs[i]; d > 0 {
			dd := time.Duration(d) * time.Microsecond
			n.Delay = func(cmd string, args [][]byte) time.Duration {
				// latency of the commits and of the stand-alone bookkeeping writes; reads (the recovery scan asks 16384 slots) and queueing are immediate
				switch cmd {
				case "exec", "hset", "del", "zrem":
					return dd
				}
				return 0
			}
		}
	}
	if c.DelFail > 0 || c.DelFailMask != 0 {
		var cnt atomic.Int64
		for _, n := range wd.tgt.Nodes() {
			n.FailAt(func(cmd string, args [][]byte) bool {
				if cmd == "del" && len(args) > 0 && strings.Contains(string(args[0]), ":commit:{") {
					n := cnt.Add(1)
					return n == int64(c.DelFail) || (n <= 16 && c.DelFailMask&(1<<uint(n-1)) != 0)
				}
				return false
			}, "ERR injected failure", 17)
		}
	}
	wd.w = bsync.NewWorld(wd.tgt)
	// the recovery scan of a cluster (one index and one latest lookup per slot, 32768 reads) does not consume the fault budget
	wd.w.Counts = func(cmd string, args [][]byte) bool {
		switch cmd {
		case "zrangebyscore", "cluster", "ping", "info", "select", "command":
			return false
		case "hgetall":
			return !(len(args) > 0 && strings.Contains(string(args[0]), ":latest:{"))
		}
		return true
	}
	add := func(args ...string) {
		wd.stream = append(wd.stream, resp.CmdS(args...)...)
	}
	add("SELECT", "0")
	for i, u := range c.Units {
		if u.Ping {
			add("PING")
		}
		if u.Txn {
			add("MULTI")
		}
		for j, k := range u.Keys {
			v := fmt.Sprintf("u%dc%d", i, j)
			wd.valUnit[v] = i
			add("SET", keyPool[k], v)
		}
		if u.Txn {
			add("EXEC")
		}
		e := x0 + int64(len(wd.stream))
		wd.unitEnd = append(wd.unitEnd, e)
		wd.byEnd[e] = i
	}
	return wd
}

// history facts extracted from the target after a run
type facts struct {
	blocks    []bsync.Block
	committed map[int]int // unit -> number of executed transactions carrying it
	firstSeq  map[int]int // unit -> request number of its first commit
}

func (wd *world) observe() (f facts, fs []failure) {
	f.committed, f.firstSeq = map[int]int{}, map[int]int{}
	f.blocks = bsync.AllBlocks(wd.tgt)
	frontierMode := wd.c.Link.Mode != "sync"
	for _, b := range f.blocks {
		if len(b.Business) == 0 {
			// bookkeeping on its own: a frontier save must name a committed prefix
			for _, ctl := range b.ControlRaw {
				if string(ctl[0]) == "hset" && strings.HasSuffix(string(ctl[1]), ":frontier") {
					rec := map[string]string{}
					for j := 2; j+1 < len(ctl); j += 2 {
						rec[string(ctl[j])] = string(ctl[j+1])
					}
					off, seq := bsync.Atoi(rec["end_offset"]), bsync.Atoi(rec["unit_seq"])
					if off != x0 {
						if _, ok := wd.byEnd[off]; !ok {
							fs = append(fs, failure{"frontier-not-a-unit-boundary", fmt.Sprintf("request %d stores the frontier (seq %d, offset %d); no source unit ends at %d", b.Seq, seq, off, off)})
							continue
						}
					}
					for u, e := range wd.unitEnd {
						if e <= off && f.committed[u] == 0 && !wd.covered[u] && !wd.maybe[u] {
							fs = append(fs, failure{"frontier-passes-missing-unit", fmt.Sprintf("request %d stores the frontier (seq %d, offset %d) although unit %d (ends at %d) has not been committed at that moment", b.Seq, seq, off, u, e)})
							break
						}
					}
				}
			}
			continue
		}
		// a transaction (or, wrongly, a bare command) with business commands
		if !b.InTxn || b.Marker == nil {
			fs = append(fs, failure{"business-outside-marked-transaction", fmt.Sprintf("request %d applies %v outside a marker transaction", b.Seq, b.BusinessS)})
			continue
		}
		u, ok := wd.byEnd[b.Marker.EndOffset]
		if !ok {
			fs = append(fs, failure{"unit-boundary-unknown", fmt.Sprintf("request %d commits a unit ending at %d, where no source unit ends", b.Seq, b.Marker.EndOffset)})
			continue
		}
		// exactly the unit's commands
		want := wd.c.Units[u]
		good := len(b.Business) == len(want.Keys)
		for j := 0; good && j < len(want.Keys); j++ {
			cm := b.Business[j]
			good = string(cm[0]) == "set" && len(cm) == 3 && string(cm[1]) == keyPool[want.Keys[j]] && string(cm[2]) == fmt.Sprintf("u%dc%d", u, j)
		}
		if !good {
			fs = append(fs, failure{"unit-replayed-differently", fmt.Sprintf("request %d commits unit %d as %v", b.Seq, u, b.BusinessS)})
		}
		// data and recovery record in one transaction
		switch {
		case b.Record == nil:
			fs = append(fs, failure{"unit-without-recovery-record", fmt.Sprintf("request %d commits unit %d (%v) without a recovery record in the same transaction", b.Seq, u, b.BusinessS)})
		case bsync.Atoi(b.Record["end_offset"]) != b.Marker.EndOffset || bsync.Atoi(b.Record["unit_seq"]) != b.Marker.UnitSeq:
			fs = append(fs, failure{"recovery-record-of-another-unit", fmt.Sprintf("request %d commits unit %d (seq %d, end %d) with the record %v", b.Seq, u, b.Marker.UnitSeq, b.Marker.EndOffset, b.Record)})
		case frontierMode && (!strings.Contains(b.RecordKey, ":commit:{") || b.IndexKey == ""):
			fs = append(fs, failure{"journal-record-not-indexed", fmt.Sprintf("request %d commits unit %d with record key %q, index %q", b.Seq, u, b.RecordKey, b.IndexKey)})
		case !frontierMode && !strings.Contains(b.RecordKey, ":latest:{"):
			fs = append(fs, failure{"sync-unit-without-latest", fmt.Sprintf("request %d commits unit %d with record key %q", b.Seq, u, b.RecordKey)})
		}
		if f.committed[u] == 0 {
			f.firstSeq[u] = b.Seq
		}
		f.committed[u]++
	}
	return f, fs
}

type runLog struct {
	Run       int    `json:"run"`
	Restart   string `json:"restart"`
	Fault     string `json:"fault"`
	StartErr  string `json:"startErr,omitempty"`
	Resume    int64  `json:"resume"`
	ResumeRun string `json:"resumeRunId,omitempty"`
	Committed []int  `json:"committedBefore"`
	SendErr   string `json:"sendErr,omitempty"`
	Dead      bool   `json:"targetDied"`
	Requests  int64  `json:"requests"`
}

func sortedUnits(m map[int]int) []int {
	var out []int
	for u := range m {
		out = append(out, u)
	}
	sort.Ints(out)
	return out
}

func run(c Case) (fs []failure, inconc string, cls map[string]bool, hist any) {
	gen.QuietLogs()
	cls = map[string]bool{}
	st := pbt.For(prop)
	st.Eval(1)
	wd := build(c)
	defer wd.tgt.Close()
	var logs []runLog
	defer func() {
		var reqLog []string
		for _, n := range wd.tgt.Nodes() {
			_, rq := n.SnapshotLog()
			for _, r := range rq {
				switch r.Cmd {
				case "cluster", "ping", "info", "select", "command":
					continue
				}
				reqLog = append(reqLog, fmt.Sprintf("%06d %s c%d %s %v -> %s", r.Seq, n.Addr(), r.Conn, r.Cmd, r.ArgsS, r.Reply))
			}
		}
		sort.Strings(reqLog)
		if len(reqLog) > 400 {
			reqLog = append(reqLog[:100], reqLog[len(reqLog)-300:]...)
		}
		hist = map[string]any{"runs": logs, "unit_ends": wd.unitEnd, "requests": reqLog}
	}()

	// the initial full synchronisation of an empty snapshot taken at offset x0
	ro, _, err := bsync.StartUp(wd.tgt, c.Link, ids)
	if err != nil {
		return nil, "initial start-up failed: " + err.Error(), cls, nil
	}
	ctx0, cancel0 := context.WithTimeout(context.Background(), 20*time.Second)
	sp0, err := ro.StartPoint(ctx0, ids)
	if err != nil {
		cancel0()
		return nil, "initial StartPoint failed: " + err.Error(), cls, nil
	}
	if !sp0.IsInitial() {
		cancel0()
		return []failure{{"resume-point-on-empty-target", fmt.Sprintf("a link that never ran resumes at %+v", sp0)}}, "", cls, nil
	}
	rdbBytes, _ := rdbgen.Build(rdbgen.File{Version: 9, Checksum: true})
	err = ro.Send(ctx0, &gen.Reader{R: bufio.NewReader(strings.NewReader(string(rdbBytes))), LeftV: x0, RunID: ids[0], Aof: false, SizeV: int64(len(rdbBytes))})
	cancel0()
	if err != nil {
		return nil, "initial snapshot replay failed: " + err.Error(), cls, nil
	}
	for _, n := range wd.tgt.Nodes() {
		n.DropConns()
	}

	prevResume := x0
	covered := wd.covered // units whose effect a later snapshot contained
	tentativeAt := int64(-1)
	lastFed := 0
	retries := 0
	runs := append([]Run(nil), c.Runs...)
	runs = append(runs, Run{Restart: runs[len(runs)-1].Restart, Fault: "probe", FeedTo: len(c.Units)})
	for ri := 0; ri < len(runs); ri++ {
		r := runs[ri]
		st.Fault(1)
		rl := runLog{Run: ri, Restart: r.Restart, Fault: r.Fault}
		wd.w.Heal()
		before, ofs := wd.observe()
		fs = append(fs, ofs...)
		if len(fs) > 0 {
			logs = append(logs, rl)
			return fs, "", cls, nil
		}
		rl.Committed = sortedUnits(before.committed)
		if r.Fault == "crash-start" {
			if r.LoseReply {
				wd.w.ArmLose(r.At)
			} else {
				wd.w.Arm(r.At)
			}
		}
		if r.Restart == "process" || ro == nil {
			ro, _, err = bsync.StartUp(wd.tgt, c.Link, ids)
			if err != nil {
				rl.StartErr, rl.Dead = err.Error(), wd.w.Dead()
				logs = append(logs, rl)
				if !wd.w.Dead() {
					return []failure{{"start-up-fails", fmt.Sprintf("run %d: namespace resolution fails on a healthy target: %v", ri, err)}}, "", cls, nil
				}
				cls["crash-during-start-up"] = true
				ro = nil
				continue
			}
		}
		ctx, cancel := context.WithCancel(context.Background())
		spCtx, spCancel := context.WithTimeout(ctx, 20*time.Second)
		sp, err := ro.StartPoint(spCtx, ids)
		spCancel()
		if err != nil {
			cancel()
			rl.StartErr, rl.Dead = err.Error(), wd.w.Dead()
			logs = append(logs, rl)
			if !wd.w.Dead() && strings.Contains(err.Error(), "injected failure") {
				// the target answered one of the start-up deletions with the injected error: the start fails and is repeated, as the tool does
				cls["start-repeated-after-failed-deletion"] = true
				if retries < 20 {
					retries++
					runs = append(runs[:ri+1], append([]Run{r}, runs[ri+1:]...)...)
				}
				continue
			}
			if !wd.w.Dead() {
				return []failure{{"start-point-fails", fmt.Sprintf("run %d (%s restart, committed units %v): StartPoint fails on a healthy target: %v", ri, r.Restart, rl.Committed, err)}}, "", cls, nil
			}
			cls["crash-during-start-up"] = true
			continue
		}
		rl.Resume, rl.ResumeRun = sp.Offset, sp.RunId
		// ---- the resume point
		isDone := func(u int) bool { return before.committed[u] > 0 || covered[u] || wd.maybe[u] }
		maxEnd := x0
		for u := range wd.unitEnd {
			if (before.committed[u] > 0 || covered[u]) && wd.unitEnd[u] > maxEnd {
				maxEnd = wd.unitEnd[u]
			}
		}
		fail := func(sig, msg string) {
			fs = append(fs, failure{sig, fmt.Sprintf("run %d (%s restart after %s, mode %s): %s; committed units before this start: %v, unit ends %v", ri, r.Restart, prevFault(runs, ri), c.Link.Mode, msg, rl.Committed, wd.unitEnd)})
		}
		if sp.IsInitial() || sp.RunId != ids[0] {
			fail("resume-point-lost", fmt.Sprintf("StartPoint returns %+v: the link would start over with a full synchronisation", sp))
		} else {
			u, isEnd := wd.byEnd[sp.Offset]
			switch {
			case sp.Offset != x0 && !isEnd:
				fail("resume-point-not-a-unit-boundary", fmt.Sprintf("resume offset %d ends no replay unit", sp.Offset))
			case sp.Offset != x0 && !isDone(u):
				fail("resume-point-not-committed", fmt.Sprintf("resume offset %d ends unit %d, which the target has not committed", sp.Offset, u))
			}
			for v, e := range wd.unitEnd {
				if e <= sp.Offset && !isDone(v) {
					fail("resume-skips-uncommitted-unit", fmt.Sprintf("resume offset %d lies behind unit %d (ends at %d), which was never committed", sp.Offset, v, e))
					break
				}
			}
			if c.Link.Mode == "sync" && sp.Offset != maxEnd && !(sp.Offset == tentativeAt && sp.Offset > maxEnd) {
				fail("sync-resume-not-last-committed", fmt.Sprintf("resume offset %d, the last committed unit ends at %d", sp.Offset, maxEnd))
			}
			if sp.Offset < prevResume {
				fail("resume-point-moved-backwards", fmt.Sprintf("resume offset %d, the previous start resumed at %d", sp.Offset, prevResume))
			}
		}
		if len(fs) > 0 || r.Fault == "probe" {
			cancel()
			logs = append(logs, rl)
			break
		}
		if sp.Offset != tentativeAt {
			// (a resume at the offset of a snapshot whose checkpoint write failed rests on the process' memory only: a later process
			// restart legitimately falls back to what is stored, so it does not raise the bar)
			prevResume = sp.Offset
		}
		if sp.Offset > x0 {
			cls["resumed-mid-stream"] = true
		}
		if sp.Offset < maxEnd {
			cls["resume-behind-a-committed-unit"] = true
		}
		if r.FeedTo == lastFed && ri > 0 {
			cls["restart-without-new-traffic"] = true
		}
		producedBefore := lastFed
		lastFed = r.FeedTo

		// ---- a full resynchronisation decided by the source (same replication id): snapshot, then the stream from its offset
		if r.ResyncTo > 0 {
			// the snapshot is taken at the source's current offset, i.e. behind everything it had produced when this connection was made
			// (what the previous runs were offered); it is therefore ahead of, or level with, everything the link ever committed
			k := producedBefore
			if r.ResyncTo >= 2 {
				k = r.FeedTo // ... or including what it produced while the link was away: this connection then has nothing to stream
			}
			if k >= 1 && wd.unitEnd[k-1] > sp.Offset {
				at := wd.unitEnd[k-1]
				rctx, rcancel := context.WithTimeout(ctx, 20*time.Second)
				err := ro.Send(rctx, &gen.Reader{R: bufio.NewReader(strings.NewReader(string(rdbBytes))), LeftV: at, RunID: ids[0], Aof: false, SizeV: int64(len(rdbBytes))})
				rcancel()
				if err != nil {
					cancel()
					rl.SendErr, rl.Dead = "snapshot: "+err.Error(), wd.w.Dead()
					logs = append(logs, rl)
					if !wd.w.Dead() && c.DelFail == 0 && c.DelFailMask == 0 {
						return []failure{{"snapshot-replay-fails", fmt.Sprintf("run %d: replaying the snapshot of a full resynchronisation fails on a healthy target: %v", ri, err)}}, "", cls, nil
					}
					// (with injected deletion failures the clean-up that belongs to a completed full sync may fail, and the full sync with it)
					// the target died somewhere inside the snapshot replay - possibly after every entry had been applied and only the
					// checkpoint write failed, in which case the tool rightly remembers (in memory) that the snapshot is in: the units it
					// contains may or may not count as applied from here on
					for u := 0; u < k; u++ {
						wd.maybe[u] = true
					}
					cls["resync-cut-short"] = true
					tentativeAt = at
					continue
				}
				for u := 0; u < k; u++ {
					covered[u] = true
				}
				sp.Offset = at
				prevResume = at
				cls["full-resync-mid-history"] = true
			}
		}

		// ---- replay from the resume point
		feedEnd := x0 + int64(len(resp.CmdS("SELECT", "0")))
		if r.FeedTo > 0 {
			feedEnd = wd.unitEnd[r.FeedTo-1]
		}
		pr, pw := io.Pipe()
		done := make(chan error, 1)
		base := wd.w.Total()
		wd.sending.Store(true)
		if r.Fault == "crash" {
			if r.LoseReply {
				wd.w.ArmLose(r.At)
			} else {
				wd.w.Arm(r.At)
			}
		}
		go func(ro *syncer.RedisOutput) {
			done <- ro.Send(ctx, &gen.Reader{R: bufio.NewReaderSize(pr, 4096), LeftV: sp.Offset, RunID: ids[0], Aof: true, SizeV: -1})
		}(ro)
		feedStop := make(chan struct{})
		go func() {
			pos := sp.Offset
			for u, e := range wd.unitEnd {
				if e <= pos || e > feedEnd {
					continue
				}
				if _, err := pw.Write(wd.stream[pos-x0 : e-x0]); err != nil {
					return
				}
				pos = e
				for _, p := range c.Pauses {
					if p.AfterUnit == u {
						select {
						case <-time.After(time.Duration(p.Ms) * time.Millisecond):
						case <-feedStop:
							return
						}
					}
				}
			}
		}()
		var sendErr error
		returned := false
		deadline := time.Now().Add(25 * time.Second)
		var appliedAt time.Time
		for !returned {
			select {
			case sendErr = <-done:
				returned = true
				continue
			default:
			}
			if wd.w.Dead() {
				break
			}
			if r.Fault == "stop" && wd.w.Total()-base >= int64(r.At) {
				break
			}
			// everything produced so far applied ?
			all := true
			for u, e := range wd.unitEnd {
				if e > sp.Offset && e <= feedEnd && wd.commitCount(e) == before.committed[u] {
					all = false
					break
				}
			}
			if all {
				if appliedAt.IsZero() {
					appliedAt = time.Now()
				}
				if time.Since(appliedAt) >= time.Duration(r.LingerMs)*time.Millisecond {
					break
				}
			}
			if time.Now().After(deadline) {
				cancel()
				close(feedStop)
				pw.Close()
				logs = append(logs, rl)
				return fs, fmt.Sprintf("run %d: the produced units were not all applied within 25 s", ri), cls, nil
			}
			time.Sleep(500 * time.Microsecond)
		}
		selfReturned := returned
		cancel()
		close(feedStop)
		if !returned {
			select {
			case sendErr = <-done:
			case <-time.After(20 * time.Second):
				pw.Close()
				logs = append(logs, rl)
				return fs, fmt.Sprintf("run %d: Send did not return within 20 s after the stop", ri), cls, nil
			}
		}
		pw.Close()
		wd.sending.Store(false)
		rl.Dead, rl.Requests = wd.w.Dead(), wd.w.Total()-base
		if sendErr != nil {
			rl.SendErr = sendErr.Error()
		}
		logs = append(logs, rl)
		cls["crashed"] = cls["crashed"] || rl.Dead
		cls["crash-with-lost-reply"] = cls["crash-with-lost-reply"] || (rl.Dead && r.LoseReply)
		cls["lost-reply-then-same-process"] = cls["lost-reply-then-same-process"] || (rl.Dead && r.LoseReply && ri+1 < len(runs) && runs[ri+1].Restart == "input")
		cls["stopped-mid-way"] = cls["stopped-mid-way"] || (r.Fault == "stop" && !selfReturned)
		if selfReturned && !rl.Dead && sendErr != nil && !errors.Is(sendErr, context.Canceled) {
			// e.g. the coordinator's connection is gone after an (injected) failed journal deletion: the tool gives up the run and
			// restarts, which the property allows; the run simply ends here
			cls["replay-ended-by-itself"] = true
			if ri == len(runs)-2 && retries < 20 {
				// the last complete run has to be complete: the tool restarts after such an error, so do we
				retries++
				runs = append(runs[:ri+1], append([]Run{{Restart: "input", Fault: "none", FeedTo: len(c.Units), LingerMs: r.LingerMs}}, runs[ri+1:]...)...)
			}
		}
		for _, n := range wd.tgt.Nodes() {
			n.WaitIdle(time.Second)
		}
	}
	// ---- the whole history
	final, ofs := wd.observe()
	fs = append(fs, ofs...)
	if len(fs) == 0 {
		for u := range c.Units {
			n := final.committed[u]
			if n == 0 && (covered[u] || wd.maybe[u]) {
				continue
			}
			if n == 0 {
				fs = append(fs, failure{"unit-never-applied", fmt.Sprintf("unit %d was never committed although the last run replayed the stream to its end (mode %s)", u, c.Link.Mode)})
				break
			}
			if n > 1 && c.Link.Mode == "sync" {
				fs = append(fs, failure{"sync-unit-applied-twice", fmt.Sprintf("unit %d was committed %d times in sync mode", u, n)})
				break
			}
			if n > 1 {
				cls["unit-repeated"] = true
			}
		}
	}
	// out-of-order completion : some unit committed before a unit that precedes it in the source
	for u := range c.Units {
		for v := 0; v < u; v++ {
			if final.firstSeq[u] != 0 && final.firstSeq[v] != 0 && final.firstSeq[u] < final.firstSeq[v] {
				cls["out-of-order-commit"] = true
			}
		}
	}
	cls["frontier-saved-while-replaying"] = wd.coordSaves.Load() > 0
	for _, b := range final.blocks {
		for _, ctl := range b.ControlRaw {
			if string(ctl[0]) == "hset" && strings.HasSuffix(string(ctl[1]), ":frontier") {
				cls["frontier-saved"] = true
			}
			if string(ctl[0]) == "del" && strings.Contains(string(ctl[1]), ":commit:{") {
				cls["journal-deleted"] = true
			}
		}
	}
	return fs, "", cls, nil
}

func prevFault(runs []Run, ri int) string {
	if ri == 0 {
		return "the initial synchronisation"
	}
	p := runs[ri-1]
	switch p.Fault {
	case "crash", "crash-start":
		return fmt.Sprintf("a %s at request %d", p.Fault, p.At)
	case "stop":
		return fmt.Sprintf("a stop at request %d", p.At)
	}
	return "a graceful stop"
}

func check(t pbt.TB, c Case) {
	st := pbt.For(prop)
	st.Case()
	cj := pbt.JSON(c)
	t0 := time.Now()
	fs, inconc, cls, hist := run(c)
	if d := time.Since(t0); d > 3*time.Second && os.Getenv("VERIF_SLOW") != "" {
		fmt.Fprintf(os.Stderr, "SLOW %v %s\n", d, cj)
	}
	if inconc != "" && len(fs) == 0 {
		st.Inconc(inconc)
		return
	}
	for k, v := range cls {
		st.ClassIf(v, k)
	}
	st.Class("mode:" + c.Link.Mode)
	st.ClassIf(c.Nodes > 0, "cluster")
	if cls["resumed-mid-stream"] && (cls["crashed"] || cls["stopped-mid-way"]) {
		st.NonTrivial(cj)
	} else {
		st.Sample(cj)
	}
	for _, f := range fs {
		st.Fail(t, f.sig, f.msg, cj, hist)
	}
}

func TestC14(t *testing.T) {
	rapid.Check(t, func(t *rapid.T) { check(t, genCase(t)) })
}

func TestC14Replay(t *testing.T) {
	if os.Getenv("VERIF_REPLAY") == "" {
		t.Skip("no VERIF_REPLAY")
	}
	v, err := pbt.LoadReplay()
	if err != nil {
		t.Fatal(err)
	}
	var c Case
	if err := json.Unmarshal(v.Case, &c); err != nil {
		t.Fatal(err)
	}
	for i := 0; i < 3; i++ {
		check(t, c)
	}
}
