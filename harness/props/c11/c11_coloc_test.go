// C11, second unit — the slot of the bookkeeping keys the tool chooses so that they are co-located with data.
//
// Two sites derive key NAMES from slots (the reverse direction of redis.KeyToSlot):
//   - checkpoint.BisyncSlotTag(slot) gives the hash tag of a bidirectional unit's marker / index / latest / commit / rdb
//     record keys; the unit is sent as one MULTI/EXEC, so every one of these keys must hash to the slot the tag was asked for;
//   - choseKeyInSlots(prefix, ranges) (through the verif hook) searches a checkpoint key name that lies in the slot ranges the
//     target serves.
//
// Oracle: ref/hashslot over the produced key names. A case of the first kind fixes a checkpoint name and a unit sequence number
// and checks ALL 16384 slots; a case of the second kind draws 1-4 slot ranges (single slots, narrow and wide ranges).
package c11

import (
	"encoding/json"
	"fmt"
	"os"
	"strings"
	"testing"

	"pgregory.net/rapid"

	"github.com/mgtv-tech/redis-GunYu/config"
	"github.com/mgtv-tech/redis-GunYu/pkg/redis/checkpoint"
	"github.com/mgtv-tech/redis-GunYu/syncer"

	"verifharness/pbt"
	"verifharness/ref/hashslot"
)

type CoCase struct {
	Coloc  bool     `json:"coloc"` // marks the case type for the replay dispatcher
	CP     string   `json:"cp"`    // checkpoint name (the tool's names carry no braces: prefix + '-' + letters)
	Seq    int64    `json:"seq"`
	Ranges [][2]int `json:"ranges,omitempty"` // second kind: slot ranges handed to the checkpoint key search
	Prefix string   `json:"prefix,omitempty"`
}

func genCoCase(t *rapid.T) CoCase {
	c := CoCase{Coloc: true}
	if rapid.IntRange(0, 3).Draw(t, "kind") == 0 {
		c.CP = config.CheckpointKey
		if rapid.Bool().Draw(t, "suffix") {
			c.CP += "-" + rapid.StringMatching("[a-z]{1,20}").Draw(t, "cpsuffix")
		} else if rapid.Bool().Draw(t, "free") {
			c.CP = rapid.StringMatching("[a-zA-Z0-9:_.-]{1,40}").Draw(t, "cpfree")
		}
		c.Seq = rapid.OneOf(rapid.Int64Range(0, 1000), rapid.Int64Range(0, 1<<62)).Draw(t, "seq")
		return c
	}
	c.Prefix = rapid.SampledFrom([]string{config.CheckpointKey, "cp", "redis-gunyu-checkpoint:x"}).Draw(t, "prefix")
	n := rapid.IntRange(1, 4).Draw(t, "nranges")
	for i := 0; i < n; i++ {
		l := rapid.IntRange(0, 16383).Draw(t, "left")
		w := rapid.SampledFrom([]int{0, 0, 1, 2, 7, 100, 5461, 16383}).Draw(t, "width")
		r := l + w
		if r > 16383 {
			r = 16383
		}
		c.Ranges = append(c.Ranges, [2]int{l, r})
	}
	return c
}

func runCo(c CoCase) []failure {
	st := pbt.For(prop)
	var fs []failure
	if len(c.Ranges) == 0 {
		for s := 0; s < 16384; s++ {
			slot := uint16(s)
			tag := checkpoint.BisyncSlotTag(slot)
			keys := map[string]string{
				"marker": checkpoint.BisyncMarkerKey(c.CP, tag),
				"index":  checkpoint.BisyncCommitIndexKey(c.CP, tag),
				"latest": checkpoint.BisyncLatestCheckpointKey(c.CP, tag),
				"commit": checkpoint.BisyncCommitRecordKey(c.CP, tag, c.Seq),
				"rdb":    checkpoint.BisyncRdbRecordKey(c.CP, tag, c.Seq),
			}
			st.Eval(len(keys))
			for _, kind := range []string{"marker", "index", "latest", "commit", "rdb"} {
				if got := hashslot.Slot([]byte(keys[kind])); got != slot {
					fs = append(fs, failure{"bookkeeping-key-in-other-slot:" + kind, fmt.Sprintf("the %s key %q made for slot %d has HASH_SLOT %d", kind, keys[kind], slot, got)})
					return fs
				}
			}
		}
		return fs
	}
	slots := &config.RedisSlots{}
	for _, r := range c.Ranges {
		slots.Ranges = append(slots.Ranges, config.RedisSlotRange{Left: r[0], Right: r[1]})
	}
	st.Eval(1)
	key := syncer.VerifChoseKeyInSlots(c.Prefix, slots)
	if key == "" {
		st.Class("coloc-no-key-found")
		return nil
	}
	got := int(hashslot.Slot([]byte(key)))
	in := false
	for _, r := range c.Ranges {
		if got >= r[0] && got <= r[1] {
			in = true
		}
	}
	if !in {
		fs = append(fs, failure{"checkpoint-key-outside-target-slots", fmt.Sprintf("checkpoint key %q chosen for ranges %v has HASH_SLOT %d", key, c.Ranges, got)})
	}
	if !strings.HasPrefix(key, c.Prefix) {
		fs = append(fs, failure{"checkpoint-key-without-prefix", fmt.Sprintf("checkpoint key %q chosen for prefix %q", key, c.Prefix)})
	}
	return fs
}

func checkCo(t pbt.TB, c CoCase) {
	cj := pbt.JSON(c)
	st := pbt.For(prop)
	st.Case()
	if len(c.Ranges) == 0 {
		st.Class("coloc-all-slots-of-a-namespace")
		st.NonTrivial(cj)
	} else {
		st.Class("coloc-checkpoint-key-search")
		single := false
		for _, r := range c.Ranges {
			if r[0] == r[1] {
				single = true
			}
		}
		st.ClassIf(single, "coloc-single-slot-range")
		if single || len(c.Ranges) > 1 {
			st.NonTrivial(cj)
		} else {
			st.Sample(cj)
		}
	}
	for _, f := range runCo(c) {
		st.Fail(t, f.sig, f.msg, cj, nil)
	}
}

func TestC11Coloc(t *testing.T) {
	rapid.Check(t, func(t *rapid.T) {
		checkCo(t, genCoCase(t))
	})
}

// replayCo is called by TestC11Replay for cases of this unit.
func replayCo(t *testing.T, raw json.RawMessage) bool {
	var probe struct {
		Coloc bool `json:"coloc"`
	}
	if json.Unmarshal(raw, &probe) != nil || !probe.Coloc {
		return false
	}
	var c CoCase
	if err := json.Unmarshal(raw, &c); err != nil {
		t.Fatal(err)
	}
	checkCo(t, c)
	return true
}

var _ = os.Getenv
