// C11 — key-to-slot computation agrees with Redis Cluster for every key.
//
// Domain: byte strings biased to brace arrangements. Oracle: ref/hashslot
// (bitwise CRC16, first '{', first following '}', non-empty). Three sites of
// the tool are compared: redis.KeyToSlot, cluster.GetSlot and the slot
// decision RangeList.IsSlotInList makes for singleton ranges.
package c11

import (
	"encoding/json"
	"fmt"
	"os"
	"testing"

	"pgregory.net/rapid"

	"github.com/mgtv-tech/redis-GunYu/pkg/filter"
	"github.com/mgtv-tech/redis-GunYu/pkg/redis"
	"github.com/mgtv-tech/redis-GunYu/pkg/redis/checkpoint"
	cluster "github.com/mgtv-tech/redis-GunYu/pkg/redis/client/cluster"

	"verifharness/pbt"
	"verifharness/ref/hashslot"
)

const prop = "C11"

func TestMain(m *testing.M) { pbt.Main(m) }

type Case struct {
	Key []byte `json:"key"` // base64 in JSON
}

func genKey() *rapid.Generator[[]byte] {
	tok := rapid.OneOf(
		rapid.SampledFrom([][]byte{[]byte("{"), []byte("}"), []byte("{}"), []byte("{{"), []byte("}}"), []byte("}{")}),
		rapid.SampledFrom([][]byte{[]byte("a"), []byte("b"), []byte("user"), []byte("1000"), []byte(":"), {0}, {0xff}, {0xc3, 0x28}, []byte("\r\n"), []byte("é")}),
		rapid.SliceOfN(rapid.Byte(), 0, 6),
	)
	return rapid.Custom(func(t *rapid.T) []byte {
		n := rapid.IntRange(0, 10).Draw(t, "ntok")
		var out []byte
		for i := 0; i < n; i++ {
			out = append(out, tok.Draw(t, "tok")...)
		}
		if rapid.IntRange(0, 19).Draw(t, "long") == 0 {
			out = append(out, rapid.SliceOfN(rapid.Byte(), 0, 300).Draw(t, "tail")...)
		}
		return out
	})
}

func countBraces(k []byte) (o, c int) {
	for _, b := range k {
		if b == '{' {
			o++
		} else if b == '}' {
			c++
		}
	}
	return
}

type failure struct{ sig, msg string }

func run(c Case) []failure {
	st := pbt.For(prop)
	st.Eval(1)
	want := hashslot.Slot(c.Key)
	var fs []failure
	o, cl := countBraces(c.Key)
	sub := "plain"
	if o >= 2 || cl >= 2 {
		sub = "multibrace"
	}
	if got := redis.KeyToSlot(string(c.Key)); got != want {
		fs = append(fs, failure{"KeyToSlot-" + sub, fmt.Sprintf("redis.KeyToSlot(%q)=%d, HASH_SLOT=%d", c.Key, got, want)})
	}
	if got, err := cluster.GetSlot(string(c.Key)); err != nil || got != want {
		fs = append(fs, failure{"GetSlot-string-" + sub, fmt.Sprintf("cluster.GetSlot(string %q)=%d,%v, HASH_SLOT=%d", c.Key, got, err, want)})
	}
	if got, err := cluster.GetSlot(c.Key); err != nil || got != want {
		fs = append(fs, failure{"GetSlot-bytes-" + sub, fmt.Sprintf("cluster.GetSlot([]byte %q)=%d,%v, HASH_SLOT=%d", c.Key, got, err, want)})
	}
	// the bookkeeping keys of a bidirectional unit on this key (tag chosen from the tool's own slot) are co-located with it
	mk := checkpoint.BisyncMarkerKey("redis-gunyu-checkpoint", checkpoint.BisyncSlotTag(redis.KeyToSlot(string(c.Key))))
	if got := hashslot.Slot([]byte(mk)); got != want {
		fs = append(fs, failure{"marker-not-colocated-" + sub, fmt.Sprintf("marker key %q of a unit on key %q has HASH_SLOT %d, the key %d", mk, c.Key, got, want)})
	}
	// slot filter decision for singleton ranges
	in := filter.NewRangeList()
	in.InsertSlotInList(want, want)
	if !in.IsSlotInList(string(c.Key)) {
		fs = append(fs, failure{"RangeList-singleton-" + sub, fmt.Sprintf("range [%d,%d] does not accept %q whose HASH_SLOT is %d", want, want, c.Key, want)})
	}
	other := (want + 1) % 16384
	out := filter.NewRangeList()
	out.InsertSlotInList(other, other)
	if out.IsSlotInList(string(c.Key)) {
		fs = append(fs, failure{"RangeList-singleton-" + sub, fmt.Sprintf("range [%d,%d] accepts %q whose HASH_SLOT is %d", other, other, c.Key, want)})
	}
	return fs
}

func classify(c Case, cj []byte) {
	st := pbt.For(prop)
	o, cl := countBraces(c.Key)
	st.ClassIf(o == 0 && cl == 0, "no-brace")
	st.ClassIf(o+cl >= 2, "braces>=2")
	st.ClassIf(o >= 2, "open>=2")
	tag := hashslot.Tag(c.Key)
	st.ClassIf(len(tag) != len(c.Key), "tag-used")
	st.ClassIf(len(c.Key) > 64, "len>64")
	st.ClassIf(len(c.Key) == 0, "empty")
	if o+cl >= 2 {
		st.NonTrivial(cj)
	} else {
		st.Sample(cj)
	}
}

func check(t pbt.TB, c Case) {
	cj := pbt.JSON(c)
	pbt.For(prop).Case()
	classify(c, cj)
	for _, f := range run(c) {
		pbt.For(prop).Fail(t, f.sig, f.msg, cj, nil)
	}
}

func TestC11(t *testing.T) {
	rapid.Check(t, func(t *rapid.T) {
		check(t, Case{Key: genKey().Draw(t, "key")})
	})
}

// FuzzC11 is the coverage-guided variant (thorough tier): raw bytes are the key.
func FuzzC11(f *testing.F) {
	for _, s := range []string{"", "foo", "{a}{b}", "{}{b}", "{a{b}", "a{b}c}d", "}{", "{{}}", "\xff{\x00}"} {
		f.Add([]byte(s))
	}
	f.Fuzz(func(t *testing.T, key []byte) {
		check(t, Case{Key: key})
	})
}

func TestC11Replay(t *testing.T) {
	if os.Getenv("VERIF_REPLAY") == "" {
		t.Skip("no VERIF_REPLAY")
	}
	v, err := pbt.LoadReplay()
	if err != nil {
		t.Fatal(err)
	}
	if replayCo(t, v.Case) {
		return
	}
	var c Case
	if err := json.Unmarshal(v.Case, &c); err != nil {
		t.Fatal(err)
	}
	check(t, c)
}
