// C04 — an incomplete snapshot replay is never recorded as a completed full sync.
//
// Fault dimensions enumerated per generated snapshot (this file: the in-process
// ones): truncation at every length (EOF and block-then-cancel), a target error
// at every data request, cancellation at every instant of the replay (with a
// slow target and deep queues so that "parsed to the end, entries still
// queued" occurs). Byte alterations run in child processes (c04_alter_test.go).
package c04

import (
	"context"
	"encoding/json"
	"fmt"
	"os"
	"strconv"
	"strings"
	"testing"
	"time"

	"pgregory.net/rapid"

	"github.com/mgtv-tech/redis-GunYu/syncer"

	"verifharness/fake"
	"verifharness/fullsync"
	"verifharness/gen"
	"verifharness/pbt"
	"verifharness/ref/rdbgen"
)

const prop = "C04"

func TestMain(m *testing.M) {
	if os.Getenv("VERIF_C04_CHILD") != "" {
		childMain()
		return
	}
	pbt.Main(m)
}

type Case struct {
	File rdbgen.File  `json:"file"`
	Cfg  fullsync.Cfg `json:"cfg"`
}

// Fault is one concrete fault applied to a case (what a replay file holds).
type Fault struct {
	Kind    string `json:"kind"` // truncate-eof | truncate-block | target-error | cancel
	At      int    `json:"at"`
	DelayUs int    `json:"delayUs,omitempty"`
}

type FCase struct {
	Case
	Fault Fault `json:"fault"`
}

func genCase(t *rapid.T) Case {
	o := gen.DatasetOpts{NowMs: time.Now().UnixNano() / 1e6, MaxKeys: 6, MaxElems: 6}
	c := Case{File: gen.GenFile(t, o), Cfg: fullsync.GenCfg(t)}
	c.Cfg.Normalize(c.File.Items)
	c.File.Checksum = true
	c.Cfg.KeyExists = "replace"
	if c.Cfg.TargetVer < "5" {
		c.Cfg.TargetVer = "7.0.0"
	}
	c.Cfg.Parallel = rapid.SampledFrom([]int{1, 1, 2, 4}).Draw(t, "parallel4")
	c.Cfg.PipeSize = rapid.SampledFrom([]int{1, 8, 1024, 1024}).Draw(t, "pipe4")
	return c
}

func isData(cmd string, args [][]byte) bool {
	switch cmd {
	case "ping", "select", "info", "echo", "auth", "multi", "exec", "hgetall", "hget":
		return false
	}
	if len(args) > 0 && gen.IsReservedKey(args[0]) {
		return false
	}
	return true
}

// snapshotOffsetStored: did the target execute a write of <runid>_offset = the snapshot's offset?
func snapshotOffsetStored(log []fake.LogEntry, off int64) bool {
	want := strconv.FormatInt(off, 10)
	for _, e := range log {
		if e.Cmd != "hset" || len(e.Args) < 3 || !gen.IsReservedKey(e.Args[0]) {
			continue
		}
		for i := 1; i+1 < len(e.Args); i += 2 {
			if strings.HasSuffix(string(e.Args[i]), "_offset") && string(e.Args[i+1]) == want {
				return true
			}
		}
	}
	return false
}

type outcome struct {
	err        error
	incomplete bool
	missing    string
	stored     bool
	spOffset   int64
	spRunID    string
	timedOut   bool
	reqs       []fake.Request
	applied    int // data requests executed
}

// execute runs one faulted replay.
func execute(c Case, f Fault, data []byte, metas []rdbgen.Meta) outcome {
	var o outcome
	srv := fake.NewServer()
	defer srv.Close()
	fullsync.Register(srv, metas)
	ctx, cancel := context.WithCancel(context.Background())
	defer cancel()
	in := data
	var block chan struct{}
	switch f.Kind {
	case "truncate-eof":
		in = data[:f.At]
	case "truncate-block":
		in = data[:f.At]
		block = make(chan struct{})
	case "target-error":
		n := 0
		srv.FailAt(func(cmd string, args [][]byte) bool {
			if !isData(cmd, args) {
				return false
			}
			n++
			return n == f.At
		}, "ERR injected by the harness", 1)
	case "cancel":
		n := 0
		srv.Lock()
		srv.OnRequest = func(seq int, cmd string, args [][]byte) {
			n++
			if n == f.At {
				cancel()
			}
		}
		srv.Unlock()
		if f.At == 0 {
			cancel()
		}
	}
	if f.DelayUs > 0 {
		d := time.Duration(f.DelayUs) * time.Microsecond
		srv.Delay = func(cmd string, args [][]byte) time.Duration { return d }
	}
	done := make(chan error, 1)
	go func() {
		var bc <-chan struct{}
		if block != nil {
			bc = block
		}
		err, _ := fullsync.Run(c.Cfg, srv, in, ctx, bc)
		done <- err
	}()
	if f.Kind == "truncate-block" {
		// the reader has delivered every available byte and now waits (a source connection that went quiet): the tool is stopped
		time.Sleep(3 * time.Millisecond)
		for i := 0; i < 200 && srv.ReqCount() > 0 && !quiet(srv); i++ {
			time.Sleep(time.Millisecond)
		}
		cancel()
		close(block)
	}
	select {
	case o.err = <-done:
	case <-time.After(20 * time.Second):
		o.timedOut = true
		cancel()
		if block != nil {
			select {
			case <-block:
			default:
			}
		}
		return o
	}
	srv.WaitIdle(2 * time.Second)
	srv.Lock()
	srv.OnRequest = nil
	srv.Unlock()
	log, reqs := srv.SnapshotLog()
	o.reqs = reqs
	for _, e := range log {
		if isData(e.Cmd, e.Args) {
			o.applied++
		}
	}
	ms := fullsync.CompareKeyspace(c.Cfg, srv.SnapshotKS(), metas, c.File.Items, time.Now().UnixNano()/1e6, nil)
	for _, m := range ms {
		if m.Sig == "extra-key" {
			continue
		}
		o.incomplete = true
		o.missing = m.Msg
		break
	}
	o.stored = snapshotOffsetStored(log, c.Cfg.SnapOffset)
	// what would the next start find?
	srv.Delay = nil
	ro := syncer.NewRedisOutput(fullsync.OutputConfig(c.Cfg, srv.Addr()))
	sp, err := ro.StartPoint(context.Background(), []string{fullsync.RunID, "0000000000000000000000000000000000000000"})
	if err == nil {
		o.spOffset, o.spRunID = sp.Offset, sp.RunId
	}
	return o
}

func quiet(srv *fake.Server) bool {
	a := srv.ReqCount()
	time.Sleep(2 * time.Millisecond)
	return srv.ReqCount() == a
}

type failure struct{ sig, msg string }

func judge(c Case, f Fault, o outcome) []failure {
	var fs []failure
	if o.timedOut {
		return []failure{{"hang:" + f.Kind, fmt.Sprintf("fault %+v: the replay did not return within 20 s", f)}}
	}
	if !o.incomplete {
		return nil
	}
	if o.err == nil {
		fs = append(fs, failure{"incomplete-replay-reported-as-success:" + f.Kind, fmt.Sprintf("fault %+v: the target lacks part of the snapshot (%s) but Send returned nil", f, o.missing)})
	}
	if o.stored {
		fs = append(fs, failure{"incomplete-replay-checkpointed:" + f.Kind, fmt.Sprintf("fault %+v: the target lacks part of the snapshot (%s) but the snapshot offset %d was stored as resume position (Send returned %v)", f, o.missing, c.Cfg.SnapOffset, o.err)})
	} else if o.spRunID == fullsync.RunID && o.spOffset == c.Cfg.SnapOffset {
		fs = append(fs, failure{"incomplete-replay-resumes-after-snapshot:" + f.Kind, fmt.Sprintf("fault %+v: incomplete replay, yet the next start resumes from the snapshot offset %d", f, c.Cfg.SnapOffset)})
	}
	return fs
}

func check(t pbt.TB, c Case) {
	st := pbt.For(prop)
	st.Case()
	cj := pbt.JSON(c)
	data, metas := rdbgen.Build(c.File)
	base := execute(c, Fault{Kind: "none"}, data, metas)
	st.Eval(1)
	if base.timedOut || base.err != nil || base.incomplete {
		// the unfaulted replay is C03's business; without a clean baseline nothing can be concluded here
		st.Inconc(fmt.Sprintf("baseline replay not clean: err=%v incomplete=%v %s", base.err, base.incomplete, base.missing))
		return
	}
	if !base.stored {
		st.Inconc("baseline replay did not store the snapshot offset")
		return
	}
	R := len(base.reqs)
	dataReqs := base.applied
	var faults []Fault
	for n := 0; n < len(data); n++ {
		faults = append(faults, Fault{Kind: "truncate-eof", At: n})
		if n%9 == 4 {
			faults = append(faults, Fault{Kind: "truncate-block", At: n})
		}
	}
	for k := 1; k <= dataReqs; k++ {
		faults = append(faults, Fault{Kind: "target-error", At: k})
	}
	for k := 0; k <= R; k++ {
		faults = append(faults, Fault{Kind: "cancel", At: k})
		if k%2 == 1 {
			// slow target: queues fill up, the parser reaches the end while workers still hold entries
			faults = append(faults, Fault{Kind: "cancel", At: k, DelayUs: 300})
		}
	}
	midFault := false
	for _, f := range faults {
		o := execute(c, f, data, metas)
		st.Eval(1)
		st.Fault(1)
		st.ClassIf(o.incomplete, "incomplete:"+f.Kind)
		if o.incomplete && o.applied >= 1 {
			midFault = true
			st.Class("fault-after-first-entry-applied:" + f.Kind)
		}
		for _, fl := range judge(c, f, o) {
			st.Fail(t, fl.sig, fl.msg, pbt.JSON(FCase{c, f}), map[string]any{"send_err": fmt.Sprint(o.err), "requests": tailReqs(o.reqs)})
		}
	}
	if midFault && len(metas) >= 2 {
		st.NonTrivial(cj)
	} else {
		st.Sample(cj)
	}
}

func tailReqs(r []fake.Request) []fake.Request {
	if len(r) > 60 {
		return r[len(r)-60:]
	}
	return r
}

func TestC04(t *testing.T) {
	rapid.Check(t, func(t *rapid.T) { check(t, genCase(t)) })
}

func TestC04Replay(t *testing.T) {
	if os.Getenv("VERIF_REPLAY") == "" {
		t.Skip("no VERIF_REPLAY")
	}
	v, err := pbt.LoadReplay()
	if err != nil {
		t.Fatal(err)
	}
	var c FCase
	if err := json.Unmarshal(v.Case, &c); err != nil || c.Fault.Kind == "" || strings.HasPrefix(c.Fault.Kind, "alter") {
		t.Skip("no such case type")
	}
	data, metas := rdbgen.Build(c.File)
	for i := 0; i < 10; i++ {
		o := execute(c.Case, c.Fault, data, metas)
		for _, fl := range judge(c.Case, c.Fault, o) {
			pbt.For(prop).Fail(t, fl.sig, fl.msg, v.Case, map[string]any{"send_err": fmt.Sprint(o.err), "requests": tailReqs(o.reqs)})
		}
	}
}

