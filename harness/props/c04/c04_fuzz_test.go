package c04

import (
	"bytes"
	"encoding/binary"
	"fmt"
	"sync/atomic"
	"testing"
	"time"

	"github.com/mgtv-tech/redis-GunYu/pkg/rdb"

	"verifharness/gen"
	"verifharness/pbt"
	"verifharness/ref/crc64"
	"verifharness/ref/rdbgen"
)

func seedFiles() [][]byte {
	mk := func(items ...rdbgen.Item) []byte {
		b, _ := rdbgen.Build(rdbgen.File{Version: 11, Aux: true, ResizeDB: true, Checksum: true, Items: items})
		return b
	}
	h := []rdbgen.HField{{F: []byte("f1"), V: []byte("-8388608")}, {F: []byte("f2"), V: bytes.Repeat([]byte("ab"), 40)}}
	return [][]byte{
		mk(rdbgen.Item{Key: []byte("s"), Kind: "string", Str: []byte("12345"), StrMode: 3}),
		mk(rdbgen.Item{Key: []byte("l"), Kind: "list", Enc: rdbgen.TQuicklist2, Elems: []pbt.B{[]byte("a"), []byte("-70000"), bytes.Repeat([]byte("xy"), 30)}, NodeSize: 2, PlainOver: 30}),
		mk(rdbgen.Item{Key: []byte("z"), Kind: "zset", Enc: rdbgen.TZSetZL, Z: []rdbgen.ZMember{{Member: []byte("m"), Score: 1.5}, {Member: []byte("n"), Score: -3}}, UnknownLen: true}),
		mk(rdbgen.Item{Key: []byte("h"), Kind: "hash", Enc: rdbgen.THashLP, H: h, BlobLZF: true}, rdbgen.Item{Key: []byte("h2"), DB: 3, Kind: "hash", Enc: rdbgen.THashZipmap, H: h, ZmFree: 2, ExpireAt: 1790000000000}),
		mk(rdbgen.Item{Key: []byte("i"), Kind: "set", Enc: rdbgen.TSetIntset, Elems: []pbt.B{[]byte("1"), []byte("-40000"), []byte("5000000000")}}),
		mk(rdbgen.Item{Key: []byte("x"), Kind: "stream", Enc: rdbgen.TStream3, S: &rdbgen.SValue{Entries: []rdbgen.SEntry{{Ms: 5, Seq: 1, Fields: h}, {Ms: 6, Seq: 0, Fields: h, Deleted: true}, {Ms: 7, Seq: 2, Fields: h[:1]}}, PerListpack: 2, LastMs: 7, LastSeq: 2, MaxDelMs: 6, EntriesAdded: 3, SameFields: true,
			Groups: []rdbgen.SGroup{{Name: []byte("g"), LastMs: 5, LastSeq: 1, EntriesRead: 1, Consumers: []rdbgen.SConsumer{{Name: []byte("c"), Seen: 9, Active: 9}}, Pel: []rdbgen.SPel{{Ms: 5, Seq: 1, Consumer: 0, Time: 77, Count: 2}}}}}}),
	}
}

// FuzzC04: arbitrary bytes through the tool's snapshot parser (including the lazy per-value expansion).
// Oracle: the call returns (watchdog), the process survives, and whenever the parser reports a complete
// snapshot whose footer is not the "checksum disabled" zero, that footer is the CRC64 (independent
// implementation) of exactly the bytes the parser consumed before it.
func FuzzC04(f *testing.F) {
	gen.QuietLogs()
	for _, s := range seedFiles() {
		f.Add(s)
	}
	f.Fuzz(func(t *testing.T, data []byte) {
		st := pbt.For(prop)
		st.Case()
		st.Eval(1)
		var consumed atomic.Int64
		type res struct {
			err  bool
			done bool
		}
		ch := make(chan res, 1)
		go func() {
			pipe := rdb.ParseRdb(bytes.NewReader(data), &consumed, 64)
			r := res{}
			for e := range pipe {
				if e.Err != nil {
					r.err = true
					break
				}
				if e.Done {
					r.done = true
					break
				}
				if e.ObjectParser != nil {
					func() {
						defer func() { recover() }()
						_ = e.ObjectParser.CreateValueDump()
						e.ObjectParser.ExecCmd(func(cmd string, args ...interface{}) error { return nil })
					}()
				}
			}
			for range pipe {
			}
			ch <- r
		}()
		select {
		case r := <-ch:
			if r.done && !r.err {
				n := int(consumed.Load())
				if n > len(data) || n < 8 {
					st.Fail(t, "fuzz:consumed-beyond-input", fmt.Sprintf("parser reports %d bytes consumed of %d", n, len(data)), pbt.JSON(map[string]any{"data": data}), nil)
					return
				}
				foot := binary.LittleEndian.Uint64(data[n-8 : n])
				if foot != 0 && foot != crc64.Sum(data[:n-8]) {
					st.Fail(t, "fuzz:bad-checksum-accepted", fmt.Sprintf("parser accepted %d bytes as a complete snapshot although its footer %x is not the CRC64 %x of the bytes before it", n, foot, crc64.Sum(data[:n-8])), pbt.JSON(map[string]any{"data": data}), nil)
				}
				st.NonTrivial(pbt.JSON(map[string]any{"len": n, "h": pbt.Hash(data)}))
			}
		case <-time.After(30 * time.Second):
			st.Fail(t, "fuzz:hang", "parser did not finish within 30 s", pbt.JSON(map[string]any{"data": data}), nil)
		}
	})
}
