package c04

import (
	"bufio"
	"bytes"
	"encoding/json"
	"fmt"
	"os"
	"os/exec"
	"regexp"
	"runtime"
	"runtime/debug"
	"strconv"
	"strings"
	"testing"
	"time"

	"pgregory.net/rapid"

	"github.com/mgtv-tech/redis-GunYu/pkg/rdb"

	"verifharness/gen"
	"verifharness/pbt"
	"verifharness/ref/rdbgen"
)

// ---- single-byte alterations, executed in child processes -------------------------------------------------

var alterVals = 5

// alter returns the i-th alteration of data: position i/5, value kind i%5. ok=false when the alteration is a no-op
// or would fabricate an all-zero (= "no checksum") footer.
func alter(data []byte, i int) (out []byte, pos int, ok bool) {
	pos = i / alterVals
	if pos >= len(data) {
		return nil, pos, false
	}
	b := data[pos]
	var nb byte
	switch i % alterVals {
	case 0:
		nb = b ^ 0x01
	case 1:
		nb = b ^ 0x80
	case 2:
		nb = 0x00
	case 3:
		nb = 0xFF
	default:
		nb = b + 1
	}
	if nb == b {
		return nil, pos, false
	}
	out = append([]byte{}, data...)
	out[pos] = nb
	if pos >= len(data)-8 {
		allZero := true
		for _, x := range out[len(out)-8:] {
			if x != 0 {
				allZero = false
			}
		}
		if allZero {
			return nil, pos, false
		}
	}
	return out, pos, true
}

// parseAll runs the tool's parser over the input, including the lazy per-value expansion, and reports what it said.
func parseAll(in []byte) (sawErr bool, sawDone bool, entries int, detail string) {
	pipe := rdb.ParseRdb(bytes.NewReader(in), nil, 64)
	for e := range pipe {
		if e.Err != nil {
			return true, false, entries, e.Err.Error()
		}
		if e.Done {
			return false, true, entries, ""
		}
		entries++
		if e.ObjectParser != nil {
			func() {
				defer func() {
					if x := recover(); x != nil {
						sawErr = true
						detail = fmt.Sprint(x)
					}
				}()
				_ = e.ObjectParser.CreateValueDump()
				e.ObjectParser.ExecCmd(func(cmd string, args ...interface{}) error { return nil })
			}()
		}
	}
	return sawErr, false, entries, "pipe closed without Done or error: " + detail
}

type childJob struct {
	File  rdbgen.File `json:"file"`
	From  int         `json:"from"`
	Only  bool        `json:"only,omitempty"`  // process alteration From alone
	WaitS int         `json:"waitS,omitempty"` // watchdog per alteration (default 20 s)
}

// childMain: VERIF_C04_CHILD = path of the job file. Protocol on stdout: "I <i>" before alteration i, "V <i> <msg>" for an
// oracle failure, "H <i>" for a hang, "E" at the end.
func childMain() {
	gen.QuietLogs()
	b, err := os.ReadFile(os.Getenv("VERIF_C04_CHILD"))
	if err != nil {
		fmt.Println("X", err)
		os.Exit(3)
	}
	var job childJob
	if err := json.Unmarshal(b, &job); err != nil {
		fmt.Println("X", err)
		os.Exit(3)
	}
	data, _ := rdbgen.Build(job.File)
	w := bufio.NewWriter(os.Stdout)
	defer w.Flush()
	n := len(data) * alterVals
	wait := 20 * time.Second
	if job.WaitS > 0 {
		wait = time.Duration(job.WaitS) * time.Second
	}
	if job.Only {
		n = job.From + 1
	}
	for i := job.From; i < n; i++ {
		in, pos, ok := alter(data, i)
		if !ok {
			continue
		}
		fmt.Fprintf(w, "I %d\n", i)
		w.Flush()
		type res struct {
			sawErr, sawDone bool
			entries         int
			detail          string
		}
		ch := make(chan res, 1)
		go func() {
			e, d, n, det := parseAll(in)
			ch <- res{e, d, n, det}
		}()
		select {
		case r := <-ch:
			if !r.sawErr {
				fmt.Fprintf(w, "V %d byte %d of %d altered (%#02x -> %#02x): the parser reported no error (done=%v, %d entries) %s\n", i, pos, len(data), data[pos], in[pos], r.sawDone, r.entries, r.detail)
			}
		case <-time.After(wait):
			fmt.Fprintf(w, "H %d byte %d altered (%#02x -> %#02x): parser did not finish within %v\n", i, pos, data[pos], in[pos], wait)
			w.Flush()
			os.Exit(4)
		}
		// a damaged length can make the parser allocate (not touch) gigabytes; give them back so that the next
		// alteration does not pay for zeroing recycled memory
		var ms runtime.MemStats
		runtime.ReadMemStats(&ms)
		if ms.HeapIdle > 1<<30 || ms.HeapInuse > 1<<30 {
			debug.FreeOSMemory()
		}
	}
	fmt.Fprintln(w, "E")
}

var oomRe = regexp.MustCompile(`cannot allocate (\d+)-byte block`)

type AlterCase struct {
	File  rdbgen.File `json:"file"`
	Fault Fault       `json:"fault"`
}

// runAlterations enumerates every single-byte alteration of the snapshot in child processes.
func runAlterations(t pbt.TB, file rdbgen.File) (count int) {
	st := pbt.For(prop)
	data, _ := rdbgen.Build(file)
	total := len(data) * alterVals
	from := 0
	dir := pbt.TmpDir("c04")
	defer os.RemoveAll(dir)
	for from < total {
		jobPath := dir + "/job.json"
		_ = os.WriteFile(jobPath, pbt.JSON(childJob{File: file, From: from}), 0o644)
		// address-space limit: an absurd allocation must fail fast instead of thrashing the machine
		cmd := exec.Command("sh", "-c", "ulimit -v 41943040; exec \"$0\" -test.run '^$'", os.Args[0])
		cmd.Env = append(os.Environ(), "VERIF_C04_CHILD="+jobPath, "VERIF_STATS=")
		var stderr bytes.Buffer
		cmd.Stderr = &stderr
		out, err := cmd.Output()
		last := -1
		ended := false
		hung := false
		for _, line := range strings.Split(string(out), "\n") {
			switch {
			case strings.HasPrefix(line, "I "):
				last, _ = strconv.Atoi(line[2:])
				count++
			case strings.HasPrefix(line, "V "):
				f := strings.SplitN(line, " ", 3)
				i, _ := strconv.Atoi(f[1])
				st.Fail(t, "altered-snapshot-accepted", f[2], pbt.JSON(AlterCase{file, Fault{Kind: "alter", At: i}}), nil)
			case strings.HasPrefix(line, "H "):
				// slow or hung? decide by running this single alteration alone in a fresh process with a generous limit
				f := strings.SplitN(line, " ", 3)
				i, _ := strconv.Atoi(f[1])
				_ = os.WriteFile(jobPath, pbt.JSON(childJob{File: file, From: i, Only: true, WaitS: 120}), 0o644)
				c2 := exec.Command("sh", "-c", "ulimit -v 41943040; exec \"$0\" -test.run '^$'", os.Args[0])
				c2.Env = append(os.Environ(), "VERIF_C04_CHILD="+jobPath, "VERIF_STATS=")
				out2, _ := c2.Output()
				if strings.Contains(string(out2), "\nH ") || strings.HasPrefix(string(out2), "H ") || !strings.Contains(string(out2), "E") {
					if strings.Contains(string(out2), "H ") {
						st.Fail(t, "hang-on-altered-snapshot", f[2]+" (confirmed alone in a fresh process: not finished after 120 s)", pbt.JSON(AlterCase{file, Fault{Kind: "alter", At: i}}), nil)
					} else {
						st.Inconc("re-run of a slow alteration died: " + string(out2))
					}
				}
				last = i
				hung = true
			case line == "E":
				ended = true
			}
		}
		if ended {
			break
		}
		if hung {
			from = last + 1
			continue
		}
		// the child died while working on alteration `last`
		se := stderr.String()
		if m := oomRe.FindStringSubmatch(se); m != nil {
			n, _ := strconv.ParseInt(m[1], 10, 64)
			_, pos, _ := alter(data, last)
			if n >= 32<<30 {
				st.Fail(t, "crash-on-altered-snapshot:absurd-allocation", fmt.Sprintf("altering byte %d killed the process: the parser tried to allocate %d bytes at once (fatal error: out of memory)", pos, n), pbt.JSON(AlterCase{file, Fault{Kind: "alter", At: last}}), nil)
			} else {
				st.Inconc(fmt.Sprintf("child ran out of memory allocating %d bytes (below the 32 GiB verdict threshold)", n))
			}
		} else if last >= 0 && (strings.Contains(se, "panic:") || strings.Contains(se, "fatal error:")) {
			_, pos, _ := alter(data, last)
			tail := se
			if len(tail) > 600 {
				tail = tail[:600]
			}
			st.Fail(t, "crash-on-altered-snapshot", fmt.Sprintf("altering byte %d killed the process: %s", pos, tail), pbt.JSON(AlterCase{file, Fault{Kind: "alter", At: last}}), nil)
		} else {
			st.Inconc(fmt.Sprintf("child died without a recognisable cause: err=%v stderr=%.300s", err, se))
			return count
		}
		from = last + 1
	}
	return count
}

func TestC04Alter(t *testing.T) {
	rapid.Check(t, func(t *rapid.T) {
		st := pbt.For(prop)
		st.Case()
		o := gen.DatasetOpts{NowMs: time.Now().UnixNano() / 1e6, MaxKeys: 6, MaxElems: 6}
		f := gen.GenFile(t, o)
		f.Checksum = true
		if rapid.IntRange(0, 3).Draw(t, "zeroRich") == 0 {
			// a value whose serialization is rich in zero bytes: [len 1]["\x00"][len 0][len 0][len 16..63][...]. One altered bit in the
			// first length byte (0x01 -> 0x81) turns the following eight bytes into a 64-bit length of 2^36..2^38: the kind of damage
			// whose result is an allocation request, not an obviously absurd number
			n := rapid.IntRange(16, 63).Draw(t, "zeroRichLen")
			last := make([]byte, n)
			for i := range last {
				last[i] = byte('a' + i%26)
			}
			f.Items = append(f.Items, rdbgen.Item{Key: pbt.B("zero-rich"), Kind: "list", Enc: rdbgen.TList, Elems: []pbt.B{pbt.B("\x00"), pbt.B(""), pbt.B(""), pbt.B(last)}})
			st.Class("zero-rich-value")
		}
		n := runAlterations(t, f)
		st.Eval(n)
		st.Fault(n)
		st.Class("alteration-enumeration")
		cj := pbt.JSON(f)
		if len(f.Items) >= 2 {
			st.NonTrivial(cj)
		} else {
			st.Sample(cj)
		}
	})
}

func TestC04AlterReplay(t *testing.T) {
	if os.Getenv("VERIF_REPLAY") == "" {
		t.Skip("no VERIF_REPLAY")
	}
	v, err := pbt.LoadReplay()
	if err != nil {
		t.Fatal(err)
	}
	var c AlterCase
	if err := json.Unmarshal(v.Case, &c); err != nil || c.Fault.Kind != "alter" {
		t.Skip("no such case type")
	}
	data, _ := rdbgen.Build(c.File)
	in, pos, ok := alter(data, c.Fault.At)
	if !ok {
		t.Skip("no-op alteration")
	}
	sawErr, sawDone, n, det := parseAll(in)
	if !sawErr {
		pbt.For(prop).Fail(t, "altered-snapshot-accepted", fmt.Sprintf("byte %d altered: no error (done=%v, %d entries) %s", pos, sawDone, n, det), v.Case, nil)
	}
}
