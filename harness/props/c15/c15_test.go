// C15 — at most one instance holds a source's leader lease at any time.
package c15

import (
	"context"
	"encoding/json"
	"errors"
	"fmt"
	"os"
	"path/filepath"
	"sync/atomic"
	"testing"
	"time"

	"pgregory.net/rapid"

	"github.com/mgtv-tech/redis-GunYu/config"
	"github.com/mgtv-tech/redis-GunYu/pkg/cluster"

	"verifharness/fake"
	"verifharness/gen"
	"verifharness/pbt"
)

const prop = "C15"

func TestMain(m *testing.M) { pbt.Main(m) }

type Action struct {
	Op   string `json:"op"` // campaign renew resign leader advance lose stop slow
	I    int    `json:"i,omitempty"`
	J    int    `json:"j,omitempty"` // between: the contender whose campaign is injected
	Ms   int64  `json:"ms,omitempty"`
	Exec bool   `json:"exec,omitempty"` // lose: the request was executed before the connection died
	Next string `json:"next,omitempty"` // lose: which call is lost (campaign|renew|resign)
}

type Case struct {
	N       int      `json:"n"`
	TTL     int      `json:"ttl"`
	Actions []Action `json:"actions"`
}

func genCase(t *rapid.T) Case {
	c := Case{N: rapid.IntRange(2, 5).Draw(t, "n"), TTL: rapid.IntRange(3, 30).Draw(t, "ttl")}
	n := rapid.IntRange(5, 40).Draw(t, "nactions")
	for i := 0; i < n; i++ {
		a := Action{I: rapid.IntRange(0, c.N-1).Draw(t, "i")}
		switch w := rapid.IntRange(0, 21).Draw(t, "op"); {
		case w >= 20 && rapid.Bool().Draw(t, "between"):
			// another contender's campaign, and the passage of time, fall BETWEEN two requests of one call (a call that is a single request -
			// the scripts as they are - has no such moment and the step is an ordinary call followed by the other's campaign)
			a.Op = "between"
			a.Next = rapid.SampledFrom([]string{"campaign", "renew", "renew"}).Draw(t, "betweenNext")
			a.J = rapid.IntRange(0, c.N-1).Draw(t, "j")
			a.Ms = rapid.SampledFrom([]int64{0, 1, int64(c.TTL)*1000 - 1, int64(c.TTL) * 1000, int64(c.TTL)*1000 + 1, int64(c.TTL) * 2000}).Draw(t, "betweenMs")
		case w >= 20:
			// the call is made with a deadline (the renew loop uses LeaseRenewInterval) and the lease store answers after it
			a.Op = "slow"
			a.Next = rapid.SampledFrom([]string{"campaign", "renew", "renew"}).Draw(t, "slowNext")
		case w < 5:
			a.Op = "campaign"
		case w < 10:
			a.Op = "renew"
		case w < 12:
			a.Op = "resign"
		case w < 13:
			a.Op = "leader"
		case w < 17:
			a.Op = "advance"
			a.Ms = rapid.OneOf(rapid.Int64Range(0, int64(c.TTL)*1000/3), rapid.Int64Range(0, int64(c.TTL)*2000), rapid.SampledFrom([]int64{int64(c.TTL)*1000 - 1, int64(c.TTL) * 1000, int64(c.TTL)*1000 + 1})).Draw(t, "ms")
		case w < 19:
			a.Op = "lose"
			a.Exec = rapid.Bool().Draw(t, "exec")
			a.Next = rapid.SampledFrom([]string{"campaign", "renew", "resign"}).Draw(t, "next")
		default:
			a.Op = "stop"
		}
		c.Actions = append(c.Actions, a)
	}
	return c
}

type failure struct{ sig, msg string }

const key = "/redis-gunyu/verif/input-election/leader"

type contender struct {
	id       string
	cl       cluster.Cluster
	el       cluster.Election
	believes int64 // virtual ms until which it believes to be leader (0 = not)
	stopped  bool
}

func run(c Case) (fs []failure, inconc string, facts map[string]bool) {
	gen.QuietLogs()
	facts = map[string]bool{}
	pbt.For(prop).Eval(1)
	srv := fake.NewServer()
	defer srv.Close()
	fake.InstallLua(srv)
	now := int64(1_700_000_000_000)
	srv.NowMs = func() int64 { return now }
	ttlMs := int64(c.TTL) * 1000
	ctx := context.Background()
	cs := make([]*contender, c.N)
	connect := func(i int) error {
		cl, err := cluster.NewRedisCluster(ctx, gen.RedisCfg(srv.Addr()), c.TTL)
		if err != nil {
			return err
		}
		cs[i].cl = cl
		cs[i].el = cl.NewElection(ctx, key, cs[i].id)
		return nil
	}
	for i := range cs {
		cs[i] = &contender{id: fmt.Sprintf("10.0.0.%d:7%03d", i+1, i)}
		if err := connect(i); err != nil {
			return nil, "connect: " + err.Error(), facts
		}
		defer func(i int) { cs[i].cl.Close() }(i)
	}
	// reference lease model
	holder, expires := "", int64(0)
	live := func() bool { return holder != "" && now < expires }
	modelCampaign := func(id string) bool {
		if !live() || holder == id {
			holder, expires = id, now+ttlMs
			return true
		}
		return false
	}
	modelResign := func(id string) {
		if live() && holder == id {
			holder = ""
		}
	}
	handovers := 0
	lastHolder := ""
	check := func(step int, a Action) {
		// (1) at most one believer with an unexpired belief
		n := 0
		who := ""
		for _, x := range cs {
			if x.believes > now {
				n++
				who += x.id + " "
			}
		}
		if n > 1 {
			fs = append(fs, failure{"two-leaders", fmt.Sprintf("after step %d %+v: %d instances believe they hold an unexpired lease: %s", step, a, n, who)})
		}
		// (2) the double's key equals the model
		srv.Lock()
		e := srv.KS.DBs[0][key]
		var gotHolder string
		var gotExp int64
		if e != nil && (e.ExpireAt == 0 || now < e.ExpireAt) {
			gotHolder, gotExp = string(e.V.Str), e.ExpireAt
		}
		unsup := srv.LuaUnsupported
		srv.Unlock()
		if unsup > 0 {
			inconc = "the lease script uses Lua outside the interpreter's subset"
			return
		}
		wantHolder, wantExp := "", int64(0)
		if live() {
			wantHolder, wantExp = holder, expires
		}
		if gotHolder != wantHolder {
			fs = append(fs, failure{"lease-holder-differs-from-model", fmt.Sprintf("after step %d %+v: the lease key holds %q, the lease rules give %q", step, a, gotHolder, wantHolder)})
		} else if wantHolder != "" && gotExp != wantExp {
			fs = append(fs, failure{"lease-expiry-differs-from-model", fmt.Sprintf("after step %d %+v: the lease of %q expires at %d, the rules give %d (ttl %d s)", step, a, gotHolder, gotExp, wantExp, c.TTL)})
		}
		if wantHolder != "" && wantHolder != lastHolder {
			if lastHolder != "" {
				handovers++
			}
			lastHolder = wantHolder
		}
	}
	var pendingLoss *Action
	for step, a := range c.Actions {
		x := cs[a.I]
		if inconc != "" || len(fs) > 0 {
			break
		}
		switch a.Op {
		case "advance":
			now += a.Ms
			if a.Ms >= ttlMs {
				facts["expiry-elapsed"] = true
			}
		case "stop":
			x.stopped = true
		case "lose":
			la := a
			pendingLoss = &la
			// the next call of that contender is lost: executed or not, the reply never arrives
			var hit bool
			srv.Lock()
			srv.RefuseOf, srv.DropReplyOf = nil, nil
			if a.Exec {
				srv.DropReplyOf = func(conn int, cmd string, args [][]byte) bool {
					if cmd == "eval" && !hit && len(args) >= 4 && string(args[3]) == x.id {
						hit = true
						return true
					}
					return false
				}
			} else {
				srv.RefuseOf = func(conn int, cmd string, args [][]byte) bool {
					if cmd == "eval" && !hit && len(args) >= 4 && string(args[3]) == x.id {
						hit = true
						return true
					}
					return false
				}
			}
			srv.Unlock()
			var err error
			switch a.Next {
			case "campaign":
				_, err = x.el.Campaign(ctx)
				if a.Exec {
					modelCampaign(x.id)
				}
			case "renew":
				err = x.el.Renew(ctx)
				if a.Exec {
					modelCampaign(x.id)
				}
			default:
				err = x.el.Resign(ctx)
				if a.Exec {
					modelResign(x.id)
				}
				// an instance that resigns stops acting as leader whatever the call returns
				x.believes = 0
			}
			if a.Next != "resign" {
				// a campaign/renew whose reply is lost tells the instance nothing: it must not keep acting on an older success beyond that lease
				// (its belief simply runs out at the time the older success granted)
			}
			srv.Lock()
			srv.RefuseOf, srv.DropReplyOf = nil, nil
			srv.Unlock()
			if err == nil {
				fs = append(fs, failure{"lost-call-reported-success", fmt.Sprintf("step %d %+v: the connection died before the reply, yet the call reported success", step, a)})
			}
			facts["lost-call"] = true
			// the instance reconnects (its lease client is recreated)
			x.cl.Close()
			if err := connect(a.I); err != nil {
				return fs, "reconnect: " + err.Error(), facts
			}
			pendingLoss = nil
		case "slow":
			if x.stopped && a.Next == "renew" {
				continue
			}
			// the request is executed by the lease store, but only after the caller's deadline has passed
			var seen atomic.Bool
			srv.Lock()
			srv.Delay = func(cmd string, args [][]byte) time.Duration {
				if cmd == "eval" && len(args) >= 4 && string(args[3]) == x.id && !seen.Swap(true) {
					return 60 * time.Millisecond
				}
				return 0
			}
			before := 0
			for _, r := range srv.Reqs {
				if r.Cmd == "eval" {
					before++
				}
			}
			srv.Unlock()
			want := modelCampaign(x.id)
			dctx, cancel := context.WithTimeout(ctx, 15*time.Millisecond)
			var got bool
			var err error
			if a.Next == "campaign" {
				var role cluster.ClusterRole
				role, err = x.el.Campaign(dctx)
				got = role == cluster.RoleLeader
			} else {
				err = x.el.Renew(dctx)
				got = err == nil
			}
			cancel()
			// whatever the call returned, the store executes the request; wait for that so that the order of executions is the order of the actions
			deadline := time.Now().Add(5 * time.Second)
			for {
				srv.Lock()
				n := 0
				for _, r := range srv.Reqs {
					if r.Cmd == "eval" {
						n++
					}
				}
				srv.Delay = nil
				srv.Unlock()
				if n > before {
					break
				}
				if time.Now().After(deadline) {
					return fs, "the delayed lease request was never executed", facts
				}
				time.Sleep(time.Millisecond)
			}
			facts["call-past-its-deadline"] = true
			switch {
			case err != nil && !errors.Is(err, cluster.ErrNotLeader):
				// the call gave up (deadline): the instance learns nothing; an earlier belief simply runs out
			case got != want:
				fs = append(fs, failure{a.Next + "-outcome-differs-from-model", fmt.Sprintf("step %d: late %s by %s returned leader=%v, the lease rules say %v (holder %q)", step, a.Next, x.id, got, want, holder)})
			case got:
				x.believes = now + ttlMs
			default:
				x.believes = 0
			}
		case "between":
			if a.J == a.I || (x.stopped && a.Next == "renew") {
				continue
			}
			y := cs[a.J]
			var nreq atomic.Int64
			var injected atomic.Bool
			var yRole cluster.ClusterRole
			var yErr error
			var injAt int64
			srv.Lock()
			srv.Delay = func(cmd string, args [][]byte) time.Duration {
				if injected.Load() {
					return 0 // requests of the injected campaign itself, and what follows
				}
				if nreq.Add(1) == 2 && injected.CompareAndSwap(false, true) {
					now += a.Ms
					injAt = now
					yRole, yErr = y.el.Campaign(ctx)
				}
				return 0
			}
			srv.Unlock()
			var got bool
			var err error
			if a.Next == "campaign" {
				var role cluster.ClusterRole
				role, err = x.el.Campaign(ctx)
				got = role == cluster.RoleLeader
			} else {
				err = x.el.Renew(ctx)
				got = err == nil
			}
			srv.Lock()
			srv.Delay = nil
			srv.Unlock()
			if !injected.Load() {
				// the call was one request: an ordinary call, then the other contender's campaign after the time has passed
				now += a.Ms
				yRole, yErr = y.el.Campaign(ctx)
				injAt = now
			} else {
				facts["campaign-between-two-requests-of-a-call"] = true
			}
			if yErr != nil {
				return fs, fmt.Sprintf("campaign error: %v", yErr), facts
			}
			if err != nil && !errors.Is(err, cluster.ErrNotLeader) && !errors.Is(err, cluster.ErrNoLeader) {
				return fs, fmt.Sprintf("%s error: %v", a.Next, err), facts
			}
			// no prediction of the two outcomes (either order of the two calls is a legal history): what each instance was told is taken
			// as it is, the reference is brought in line with the lease store, and the invariants decide
			if injected.Load() || true {
				if got {
					x.believes = now + ttlMs
					if !injected.Load() {
						x.believes = injAt - a.Ms + ttlMs
					}
				} else {
					x.believes = 0
				}
				if yRole == cluster.RoleLeader {
					y.believes = injAt + ttlMs
				} else {
					y.believes = 0
				}
				srv.Lock()
				if e := srv.KS.DBs[0][key]; e != nil && (e.ExpireAt == 0 || now < e.ExpireAt) {
					holder, expires = string(e.V.Str), e.ExpireAt
				} else {
					holder, expires = "", 0
				}
				srv.Unlock()
			}
			// a believer must be the holder the lease store knows
			for _, z := range []*contender{x, y} {
				if z.believes > now && (holder != z.id) {
					fs = append(fs, failure{"told-leader-without-holding-the-lease", fmt.Sprintf("step %d %+v: %s was told it is leader (belief until %d, now %d) while the lease store holds %q", step, a, z.id, z.believes, now, holder)})
				}
			}
		case "campaign", "renew":
			if x.stopped && a.Op == "renew" {
				continue
			}
			want := modelCampaign(x.id)
			var got bool
			var err error
			if a.Op == "campaign" {
				var role cluster.ClusterRole
				role, err = x.el.Campaign(ctx)
				got = role == cluster.RoleLeader
				if err != nil {
					return fs, fmt.Sprintf("campaign error: %v", err), facts
				}
			} else {
				err = x.el.Renew(ctx)
				got = err == nil
				if err != nil && !errors.Is(err, cluster.ErrNotLeader) {
					fs = append(fs, failure{"failed-renew-not-reported-as-loss", fmt.Sprintf("step %d: renew of %s failed with %v instead of ErrNotLeader", step, x.id, err)})
				}
			}
			if got != want {
				fs = append(fs, failure{a.Op + "-outcome-differs-from-model", fmt.Sprintf("step %d: %s by %s returned leader=%v, the lease rules say %v (holder %q, live %v)", step, a.Op, x.id, got, want, holder, live())})
			}
			if got {
				x.believes = now + ttlMs
			} else {
				x.believes = 0
			}
		case "resign":
			wasHolder := live() && holder == x.id
			modelResign(x.id)
			if err := x.el.Resign(ctx); err != nil {
				return fs, fmt.Sprintf("resign error: %v", err), facts
			}
			x.believes = 0
			if !wasHolder {
				facts["resign-by-non-holder"] = true
			}
		case "leader":
			info, err := x.el.Leader(ctx)
			if live() {
				if err != nil || info.Address != holder {
					fs = append(fs, failure{"leader-query-differs", fmt.Sprintf("step %d: Leader() = %v,%v; holder is %q", step, info, err, holder)})
				}
			} else if err == nil && info.Address != "" {
				fs = append(fs, failure{"leader-query-differs", fmt.Sprintf("step %d: Leader() = %q although no unexpired lease exists", step, info.Address)})
			}
		}
		check(step, a)
	}
	_ = pendingLoss
	if handovers > 0 && facts["expiry-elapsed"] {
		facts["hand-over-through-expiry"] = true
	}
	return fs, inconc, facts
}

func check(t pbt.TB, c Case) {
	st := pbt.For(prop)
	st.Case()
	cj := pbt.JSON(c)
	fs, inconc, facts := run(c)
	if inconc != "" && len(fs) == 0 {
		st.Inconc(inconc)
		return
	}
	for k := range facts {
		st.Class(k)
	}
	if facts["hand-over-through-expiry"] && facts["resign-by-non-holder"] {
		st.NonTrivial(cj)
	} else {
		st.Sample(cj)
	}
	for _, f := range fs {
		st.Fail(t, f.sig, f.msg, cj, nil)
	}
}

func TestC15(t *testing.T) {
	rapid.Check(t, func(t *rapid.T) { check(t, genCase(t)) })
}

// TestC15Config: every cluster section the configuration loader accepts renews at least three times per lease period.
func TestC15Config(t *testing.T) {
	dir := pbt.TmpDir("c15")
	defer os.RemoveAll(dir)
	rapid.Check(t, func(t *rapid.T) {
		st := pbt.For(prop)
		st.Case()
		st.Eval(1)
		lease := rapid.SampledFrom([]string{"", "0s", "1s", "2900ms", "3s", "9s", "10s", "31s", "600s", "601s", "2h", "100ms"}).Draw(t, "lease")
		if rapid.Bool().Draw(t, "leaseRandom") {
			lease = fmt.Sprintf("%dms", rapid.IntRange(0, 700000).Draw(t, "leaseMs"))
		}
		renew := rapid.SampledFrom([]string{"", "0s", "1s", "999ms", "3s", "3334ms", "200s", "201s", "1h"}).Draw(t, "renew")
		if rapid.Bool().Draw(t, "renewRandom") {
			renew = fmt.Sprintf("%dms", rapid.IntRange(0, 300000).Draw(t, "renewMs"))
		}
		y := "input:\n  redis:\n    addresses: [127.0.0.1:6379]\noutput:\n  redis:\n    addresses: [127.0.0.1:6380]\ncluster:\n  groupName: g\n"
		if lease != "" {
			y += "  leaseTimeout: " + lease + "\n"
		}
		if renew != "" {
			y += "  leaseRenewInterval: " + renew + "\n"
		}
		p := filepath.Join(dir, "cfg.yaml")
		os.WriteFile(p, []byte(y), 0o644)
		cj := pbt.JSON(map[string]string{"leaseTimeout": lease, "leaseRenewInterval": renew})
		if err := config.InitSyncerConfig(p); err != nil {
			st.Sample(cj)
			return // rejected configuration
		}
		cc := config.GetSyncerConfig().Cluster
		if cc == nil {
			st.Inconc("cluster section missing after load")
			return
		}
		st.NonTrivial(cj)
		if cc.LeaseRenewInterval <= 0 || cc.LeaseRenewInterval > cc.LeaseTimeout/3 {
			st.Fail(t, "renew-interval-too-long", fmt.Sprintf("accepted configuration leaseTimeout=%q leaseRenewInterval=%q gives timeout %v, renew interval %v (> timeout/3)", lease, renew, cc.LeaseTimeout, cc.LeaseRenewInterval), cj, nil)
		}
		if cc.LeaseTimeout < time.Second {
			st.Fail(t, "lease-shorter-than-redis-granularity", fmt.Sprintf("lease timeout %v < 1s (the lease is set with EX seconds)", cc.LeaseTimeout), cj, nil)
		}
	})
}

func TestC15Replay(t *testing.T) {
	if os.Getenv("VERIF_REPLAY") == "" {
		t.Skip("no VERIF_REPLAY")
	}
	v, err := pbt.LoadReplay()
	if err != nil {
		t.Fatal(err)
	}
	var c Case
	if err := json.Unmarshal(v.Case, &c); err != nil || c.N == 0 {
		t.Skip("no such case type")
	}
	check(t, c)
}
