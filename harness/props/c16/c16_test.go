// C16 — a follower's cache is a faithful copy of the leader's stream.
package c16

import (
	"encoding/json"
	"errors"
	"fmt"
	"os"
	"sync"
	"sync/atomic"
	"testing"
	"time"

	"google.golang.org/grpc"
	"pgregory.net/rapid"

	pb "github.com/mgtv-tech/redis-GunYu/pkg/api/golang"
	"github.com/mgtv-tech/redis-GunYu/pkg/cluster"
	usync "github.com/mgtv-tech/redis-GunYu/pkg/sync"
	"github.com/mgtv-tech/redis-GunYu/syncer"

	"verifharness/cache"
	"verifharness/fake"
	"verifharness/gen"
	"verifharness/pbt"
)

const prop = "C16"

func TestMain(m *testing.M) { pbt.Main(m) }

type Case struct {
	LeaderDisk   bool `json:"leaderDisk"`
	FollowerDisk bool `json:"followerDisk"`
	// leader cache: lineage 1, optional snapshot at LLeft, log [LLeft, LRight], LGc: oldest segments collected before the follower connects
	LSnapshot bool  `json:"lSnapshot"`
	LLeft     int64 `json:"lLeft"`
	LRight    int64 `json:"lRight"`
	LGc       bool  `json:"lGc"`
	LLive     int64 `json:"lLive"` // bytes the leader appends while the follower is attached
	// follower pre-state
	FKind  string `json:"fKind"`  // empty | prefix | equal | ahead | otherid | parent | behind
	FLeft  int64  `json:"fLeft"`  // used by prefix/behind
	FRight int64  `json:"fRight"` // follower's right edge (meaning depends on FKind)
	FSnap  bool   `json:"fSnap"`
	// the follower process has been running before (its cache object remembers the id it followed)
	FWarm bool `json:"fWarm"`
	// FarAhead: the follower is ahead of the leader by more than 10 MiB (a former leader that rejoins behind a lagging new one); its
	// cache then uses 1 MiB segments
	FarAhead bool `json:"farAhead,omitempty"`
	// interruption: the server side stream fails after this many messages of the first session (0 = never); enumerated by the property
	CutAfter int `json:"cutAfter"`
	// FailoverAtCall n > 0: when the follower's n-th request of the first session arrives, the source has just failed over with a partial
	// resynchronisation: the leader reports [new id, previous id], its cache is re-labelled, and what it appends from here on belongs to
	// the new history (n = 1: before the hand-shake, 2: between the hand-shake and the data request)
	FailoverAtCall int `json:"failoverAtCall,omitempty"`
}

func genCase(t *rapid.T) Case {
	c := Case{LeaderDisk: rapid.Bool().Draw(t, "leaderDisk"), FollowerDisk: rapid.Bool().Draw(t, "followerDisk")}
	c.LSnapshot = rapid.Bool().Draw(t, "lSnapshot")
	c.LLeft = rapid.Int64Range(100, 5000).Draw(t, "lLeft")
	c.LRight = c.LLeft + rapid.SampledFrom([]int64{0, 10, 600, 5000, 9000}).Draw(t, "lLen")
	c.LGc = rapid.IntRange(0, 3).Draw(t, "lGc") == 0
	c.LLive = rapid.SampledFrom([]int64{0, 50, 4200}).Draw(t, "lLive")
	c.FKind = rapid.SampledFrom([]string{"empty", "prefix", "prefix", "equal", "ahead", "otherid", "otherid", "parent", "behind"}).Draw(t, "fKind")
	c.FSnap = rapid.Bool().Draw(t, "fSnap")
	c.FWarm = rapid.Bool().Draw(t, "fWarm")
	span := c.LRight - c.LLeft
	switch c.FKind {
	case "prefix":
		c.FLeft = c.LLeft + rapid.Int64Range(0, span/2+1).Draw(t, "fl")
		c.FRight = c.FLeft + rapid.Int64Range(0, span/2+1).Draw(t, "fr")
		if c.FRight > c.LRight {
			c.FRight = c.LRight
		}
	case "equal":
		c.FLeft, c.FRight = c.LLeft, c.LRight
	case "ahead":
		c.FLeft, c.FRight = c.LLeft, c.LRight+rapid.Int64Range(1, 300).Draw(t, "ahead")
		if rapid.IntRange(0, 3).Draw(t, "farAhead") == 0 {
			c.FarAhead = true
			c.FRight = c.LRight + 10<<20 + rapid.Int64Range(1, 300000).Draw(t, "farAheadBy")
		}
		c.LLive = 0 // otherwise the leader may overtake the follower before it connects and "ahead" is no longer true
	case "behind":
		// the follower's position is older than anything the leader still holds
		c.FLeft = c.LLeft - rapid.Int64Range(20, 90).Draw(t, "behindL")
		c.FRight = c.FLeft + rapid.Int64Range(1, 15).Draw(t, "behindLen")
	case "otherid", "parent":
		c.FLeft = rapid.Int64Range(50, 6000).Draw(t, "ofl")
		c.FRight = c.FLeft + rapid.SampledFrom([]int64{5, 700, 9000, 20000}).Draw(t, "ofr")
	}
	switch c.FKind {
	case "empty", "prefix", "equal", "behind":
		if rapid.IntRange(0, 3).Draw(t, "failover") == 0 {
			c.FailoverAtCall = rapid.IntRange(1, 3).Draw(t, "failoverAtCall")
			c.LLive = 0 // the bytes that follow the switch are appended by the fail-over itself
		}
	}
	return c
}

// stub input of the leader: reports the replication ids
type stubInput struct {
	mu  sync.Mutex
	ids []string
}

func (s *stubInput) Id() string                                        { return "verif-src" }
func (s *stubInput) Run() error                                        { return nil }
func (s *stubInput) Stop() error                                       { return nil }
func (s *stubInput) SetOutput(o syncer.Output)                         {}
func (s *stubInput) SetChannel(c syncer.Channel)                       {}
func (s *stubInput) StateNotify(st syncer.SyncState) usync.WaitChannel { return nil }
func (s *stubInput) RunIds() []string {
	s.mu.Lock()
	defer s.mu.Unlock()
	return append([]string(nil), s.ids...)
}
func (s *stubInput) setIds(ids []string) { s.mu.Lock(); s.ids = ids; s.mu.Unlock() }

// cutStream fails the server side after n messages
type cutStream struct {
	pb.ApiService_SyncServer
	left *atomic.Int64
	sent *atomic.Int64
}

func (c *cutStream) Send(m *pb.SyncResponse) error {
	c.sent.Add(1)
	if c.left != nil {
		if c.left.Add(-1) < 0 {
			return errors.New("verif: link interrupted")
		}
	}
	return c.ApiService_SyncServer.Send(m)
}

type server struct {
	pb.UnimplementedApiServiceServer
	leader *syncer.ReplicaLeader
	wait   usync.WaitCloser
	cut    *atomic.Int64 // remaining messages before the interruption (nil = none)
	sent   atomic.Int64
	calls  atomic.Int64
	onCall func(n int64)
}

func (s *server) Sync(req *pb.SyncRequest, st pb.ApiService_SyncServer) error {
	if n := s.calls.Add(1); s.onCall != nil {
		s.onCall(n)
	}
	return s.leader.Handle(s.wait, req, &cutStream{ApiService_SyncServer: st, left: s.cut, sent: &s.sent})
}

type failure struct{ sig, msg string }

// inspect reads back everything the follower's cache claims to hold and compares it with the leader's history.
func inspect(f *cache.Chan, lead *cache.Lineage, leaderID string, what string) (fs []failure, held int64) {
	id := f.C.RunId()
	if id == "" {
		return nil, 0
	}
	l, r := f.C.GetOffsetRange(id)
	if l < 0 || r < 0 || r < l {
		return nil, 0
	}
	if id != leaderID {
		return nil, 0 // judged by the caller (must be the untouched pre-state)
	}
	// read the whole range
	rd, err := f.C.NewReader(syncer.Offset{RunId: id, Offset: l})
	if err != nil {
		if f.C.IsValidOffset(syncer.Offset{RunId: id, Offset: l}) && r > l {
			fs = append(fs, failure{"follower-range-unreadable", fmt.Sprintf("%s: follower reports [%d,%d] for %s but a reader at %d fails: %v", what, l, r, id, l, err)})
		}
		return fs, 0
	}
	p := cache.StartPump(rd, lead.ID, l)
	defer p.Close()
	if p.Aof {
		p.WaitLen(int(r-l), 5*time.Second)
		buf, _, _ := p.Snapshot()
		if int64(len(buf)) < r-l {
			fs = append(fs, failure{"follower-range-not-contiguous", fmt.Sprintf("%s: follower reports [%d,%d] but a reader from %d delivers only %d bytes", what, l, r, l, len(buf))})
		}
		for i, b := range buf {
			if w := lead.At(l + int64(i)); b != w {
				fs = append(fs, failure{"follower-holds-bytes-that-are-not-the-leaders", fmt.Sprintf("%s: follower cache [%d,%d] of %s: byte at offset %d is %#02x, the leader's stream has %#02x", what, l, r, id, l+int64(i), b, w)})
				break
			}
		}
		return fs, int64(len(buf))
	}
	return fs, 0
}

func run(c Case) (fs []failure, inconc string, facts map[string]bool, msgs int) {
	gen.QuietLogs()
	facts = map[string]bool{}
	pbt.For(prop).Eval(1)
	cache.SetVerifyCrc(false)
	lead := &cache.Lineage{ID: 1}
	parent := &cache.Lineage{ID: 5}
	if c.FKind == "parent" {
		// the leader's history forked from the one the follower still holds
		lead = &cache.Lineage{ID: 1, Parent: parent, Fork: c.LLeft / 2}
	}
	other := &cache.Lineage{ID: 7}
	base := pbt.TmpDir("c16")
	defer os.RemoveAll(base)

	// ---- leader
	ldir := ""
	if c.LeaderDisk {
		ldir = base + "/leader"
		os.MkdirAll(ldir, 0o755)
	}
	L := cache.Open(c.LeaderDisk, ldir, 4096, 4*4096)
	defer L.Close()
	if err := L.C.SetRunId(lead.RunID()); err != nil {
		return nil, "leader SetRunId: " + err.Error(), facts, 0
	}
	if c.LSnapshot {
		if e := L.WriteRdb(lead.ID, c.LLeft, 96, 96); e != "" {
			return nil, e, facts, 0
		}
	}
	if e := L.StartAof(c.LLeft); e != "" {
		return nil, e, facts, 0
	}
	if c.LRight > c.LLeft {
		if e := L.AppendBytes(lead.Bytes(c.LLeft, c.LRight-c.LLeft), c.LLeft, lead.RunID()); e != "" {
			return nil, e, facts, 0
		}
	}
	if c.LGc {
		L.Gc()
	}
	lLeft, _ := L.C.GetOffsetRange(lead.RunID())

	// ---- follower pre-state
	fdir := ""
	if c.FollowerDisk {
		fdir = base + "/follower"
		os.MkdirAll(fdir, 0o755)
	}
	fLog := int64(4096)
	if c.FarAhead {
		fLog = 1 << 20
	}
	F := cache.Open(c.FollowerDisk, fdir, fLog, -1)
	defer func() { F.Close() }()
	var flin *cache.Lineage
	switch c.FKind {
	case "prefix", "equal", "ahead", "behind":
		flin = lead
	case "otherid":
		flin = other
	case "parent":
		flin = parent
	}
	if flin != nil {
		if err := F.C.SetRunId(flin.RunID()); err != nil {
			return nil, "follower SetRunId: " + err.Error(), facts, 0
		}
		if c.FSnap {
			if e := F.WriteRdb(flin.ID, c.FLeft, 64, 64); e != "" {
				return nil, e, facts, 0
			}
		}
		if e := F.StartAof(c.FLeft); e != "" {
			return nil, e, facts, 0
		}
		if c.FRight > c.FLeft {
			if e := F.AppendBytes(flin.Bytes(c.FLeft, c.FRight-c.FLeft), c.FLeft, flin.RunID()); e != "" {
				return nil, e, facts, 0
			}
		}
		F.StopWriter()
		if !c.FWarm && c.FollowerDisk {
			// a freshly started follower process: nothing remembered but the directory
			F.Close()
			F = cache.Open(true, fdir, fLog, -1)
		}
	}
	preID := F.C.RunId()

	// ---- the link
	var liveWG sync.WaitGroup
	sin := &stubInput{ids: []string{lead.RunID(), "0000000000000000000000000000000000000000"}}
	srv := &server{leader: syncer.NewReplicaLeader(sin, L.C), wait: usync.NewWaitCloser(nil)}
	srv.leader.Start()
	// the history the leader follows now (changes at a fail-over)
	var nowMu sync.Mutex
	leadNow := lead
	getLead := func() *cache.Lineage { nowMu.Lock(); defer nowMu.Unlock(); return leadNow }
	var failoverErr string
	if c.FailoverAtCall > 0 {
		var once sync.Once
		srv.onCall = func(n int64) {
			if n < int64(c.FailoverAtCall) {
				return
			}
			once.Do(func() {
				// the source was promoted: same bytes up to here, another history from here on; the leader's input has re-labelled its cache
				// and reports the previous id second
				_, r := L.C.GetOffsetRange(lead.RunID())
				l2 := &cache.Lineage{ID: 2, Parent: lead, Fork: r}
				// (the leader's input lost its source connection, reconnected, was granted a partial resynchronisation under the new id,
				// re-labelled the cache and attached a new log writer at the same offset)
				L.StopWriter()
				if err := L.C.SetRunId(l2.RunID()); err != nil {
					failoverErr = "leader SetRunId at fail-over: " + err.Error()
					return
				}
				if e := L.StartAof(r); e != "" {
					failoverErr = "leader writer after fail-over: " + e
					return
				}
				sin.setIds([]string{l2.RunID(), lead.RunID()})
				nowMu.Lock()
				leadNow = l2
				nowMu.Unlock()
				if e := L.AppendBytes(l2.Bytes(r, 300), r, l2.RunID()); e != "" {
					failoverErr = "leader append after fail-over: " + e
				}
				// ... and the new master keeps writing while the follower's request is being served
				liveWG.Add(1)
				go func() {
					defer liveWG.Done()
					time.Sleep(15 * time.Millisecond)
					L.AppendBytes(l2.Bytes(r+300, 200), r+300, l2.RunID())
				}()
				facts["source-failed-over-during-session"] = true
			})
		}
	}
	if c.CutAfter > 0 {
		srv.cut = &atomic.Int64{}
		srv.cut.Store(int64(c.CutAfter))
	}
	ln, err := fake.Listen()
	if err != nil {
		return nil, err.Error(), facts, 0
	}
	gs := grpc.NewServer()
	pb.RegisterApiServiceServer(gs, srv)
	go gs.Serve(ln)
	defer gs.Stop()
	defer srv.wait.Close(nil)

	// the leader keeps receiving from the source meanwhile
	lRight := c.LRight
	if c.LLive > 0 {
		liveWG.Add(1)
		go func() {
			defer liveWG.Done()
			time.Sleep(3 * time.Millisecond)
			L.AppendBytes(lead.Bytes(c.LRight, c.LLive), c.LRight, lead.RunID())
		}()
		lRight += c.LLive
	}

	session := func(tag string) (runErr error, stopped bool) {
		fol := syncer.NewReplicaFollower(1, "verif-src", F.C, &cluster.RoleInfo{Address: ln.Addr().String(), Role: cluster.RoleLeader})
		done := make(chan error, 1)
		go func() { done <- fol.Run() }()
		deadline := time.Now().Add(6 * time.Second)
		quietSince := time.Now()
		lastSent := srv.sent.Load()
		for {
			select {
			case err := <-done:
				return err, false
			default:
			}
			cur := getLead()
			want := lRight
			if c.FailoverAtCall > 0 {
				_, want = L.C.GetOffsetRange(cur.RunID())
			}
			if _, r := F.C.GetOffsetRange(cur.RunID()); r == want && F.C.RunId() == cur.RunID() && (c.FailoverAtCall == 0 || cur != lead) {
				liveWG.Wait()
				break
			}
			if s := srv.sent.Load(); s != lastSent {
				lastSent, quietSince = s, time.Now()
			}
			// interrupted or refused: nothing moves any more
			cutHit := srv.cut != nil && srv.cut.Load() < 0
			if time.Since(quietSince) > 150*time.Millisecond && (cutHit || time.Since(quietSince) > 1500*time.Millisecond) {
				break
			}
			if time.Now().After(deadline) {
				break
			}
			time.Sleep(time.Millisecond)
		}
		fol.Stop()
		select {
		case err := <-done:
			return err, true
		case <-time.After(10 * time.Second):
			inconc = tag + ": follower did not stop within 10 s"
			return nil, true
		}
	}

	judge := func(tag string, runErr error) {
		id := F.C.RunId()
		if c.FKind == "ahead" {
			// a follower that holds more than the leader is offered leadership and left untouched
			if runErr == nil || !errors.Is(runErr, syncer.ErrLeaderTakeover) {
				if c.CutAfter == 0 {
					fs = append(fs, failure{"ahead-follower-not-offered-leadership", fmt.Sprintf("%s: follower holds up to %d, leader up to %d; Run returned %v", tag, c.FRight, c.LRight, runErr)})
				}
			}
			if _, r := F.C.GetOffsetRange(lead.RunID()); r != c.FRight && c.CutAfter == 0 {
				fs = append(fs, failure{"ahead-follower-overwritten", fmt.Sprintf("%s: follower held [%d,%d], afterwards its right edge is %d", tag, c.FLeft, c.FRight, r)})
			}
		}
		cur := getLead()
		if id != "" && id != cur.RunID() {
			switch {
			case cur != lead && id == lead.RunID():
				// the source failed over and the follower still carries the id the leader had before (its own from the start, or adopted
				// at the hand-shake): then it may hold bytes of that history only - nothing the leader has received since the switch
				f2, _ := inspect(F, lead, id, tag+" (follower still labelled with the id from before the fail-over)")
				fs = append(fs, f2...)
			case id != preID:
				fs = append(fs, failure{"follower-under-unknown-id", fmt.Sprintf("%s: follower cache is labelled %s (leader %s, before %s)", tag, id, cur.RunID(), preID)})
			}
			return
		}
		f2, held := inspect(F, cur, cur.RunID(), tag)
		fs = append(fs, f2...)
		if held > 0 {
			facts["follower-holds-leader-bytes"] = true
		}
	}

	err1, _ := session("first session")
	msgs = int(srv.sent.Load())
	judge(fmt.Sprintf("after the first session (cut after %d messages)", c.CutAfter), err1)
	if c.CutAfter > 0 && len(fs) == 0 && inconc == "" {
		// the link is healthy again: the follower restarts on the same cache object
		srv.cut = nil
		if c.FKind != "ahead" {
			err2, _ := session("second session")
			judge("after reconnecting", err2)
			if _, r := F.C.GetOffsetRange(lead.RunID()); r == lRight {
				facts["caught-up-after-interruption"] = true
			}
		}
	}
	if c.FailoverAtCall > 0 && c.CutAfter == 0 && len(fs) == 0 && inconc == "" && failoverErr == "" && getLead() != lead {
		// after the fail-over the follower comes back: it must end up with the new history (or with nothing of the old one beyond the switch)
		err2, _ := session("session after the fail-over")
		judge("after the fail-over and a reconnect", err2)
	}
	if failoverErr != "" && len(fs) == 0 {
		inconc = failoverErr
	}
	liveWG.Wait()
	_ = lLeft
	facts["f:"+c.FKind] = true
	return fs, inconc, facts, msgs
}

func check(t pbt.TB, c Case) {
	st := pbt.For(prop)
	st.Case()
	cj := pbt.JSON(c)
	base := c
	base.CutAfter = 0
	fs, inconc, facts, msgs := run(base)
	report := func(cc Case, fs []failure) {
		for _, f := range fs {
			st.Fail(t, f.sig+":"+cc.FKind, f.msg, pbt.JSON(cc), nil)
		}
	}
	if inconc != "" && len(fs) == 0 {
		st.Inconc(inconc)
		return
	}
	for k := range facts {
		st.Class(k)
	}
	st.ClassIf(c.FarAhead, "follower-ahead-by-more-than-10MiB")
	report(base, fs)
	nt := false
	if msgs > 40 {
		msgs = 40
	}
	for k := 1; k <= msgs; k++ {
		cc := c
		cc.CutAfter = k
		fs, inconc, facts, _ := run(cc)
		st.Fault(1)
		if inconc != "" && len(fs) == 0 {
			st.Inconc(inconc)
			continue
		}
		if c.FKind != "empty" && k >= 2 {
			nt = true
		}
		for k := range facts {
			st.Class(k)
		}
		report(cc, fs)
	}
	if nt {
		st.NonTrivial(cj)
	} else {
		st.Sample(cj)
	}
}

func TestC16(t *testing.T) {
	rapid.Check(t, func(t *rapid.T) { check(t, genCase(t)) })
}

func TestC16Replay(t *testing.T) {
	if os.Getenv("VERIF_REPLAY") == "" {
		t.Skip("no VERIF_REPLAY")
	}
	v, err := pbt.LoadReplay()
	if err != nil {
		t.Fatal(err)
	}
	var c Case
	if err := json.Unmarshal(v.Case, &c); err != nil {
		t.Fatal(err)
	}
	for i := 0; i < 3; i++ {
		fs, _, _, _ := run(c)
		for _, f := range fs {
			pbt.For(prop).Fail(t, f.sig+":"+c.FKind, f.msg, v.Case, nil)
		}
	}
}
