// C09 — a source transaction reaches the target as one atomic transaction.
package c09

import (
	"strconv"
	"bytes"
	"encoding/json"
	"fmt"
	"os"
	"testing"

	"pgregory.net/rapid"

	"verifharness/gen"
	"verifharness/pbt"
	"verifharness/replay"
)

const prop = "C09"

func TestMain(m *testing.M) { pbt.Main(m) }

type FCase struct {
	replay.Case
	Faults []replay.Fault `json:"faults"`
}

func genCase(t *rapid.T) replay.Case {
	yes := true
	c := replay.Case{}
	c.Cfg = gen.GenOutCfg(t, &yes, &yes)
	// small batches so that transactions are shorter, equal and longer than the batch size
	if rapid.IntRange(0, 3).Draw(t, "smallBatch") != 0 {
		c.Cfg.BatchCmdCount = uint(rapid.IntRange(1, 4).Draw(t, "batch"))
	}
	c.Cmds = gen.GenStream(t, c.Cfg, gen.StreamOpts{MaxCmds: 22, TxnBias: 14, SelectBias: 2})
	c.Sched = gen.GenSchedule(t, c.Cfg, false)
	if rapid.IntRange(0, 4).Draw(t, "pingIdle") == 0 || (len(c.Cfg.DbBlacklist) > 0 && rapid.Bool().Draw(t, "pingIdleInBlacklistedDb")) {
		// (with a database blacklist: keep-alives also arrive while the source stands in a blacklisted database)
		// an idle master: keep-alive PINGs surrounded by idle time, in front of SELECT / MULTI
		c.Cmds, c.Sched = gen.PingIdle(t, c.Cfg, c.Cmds)
	}
	if len(c.Sched.Pauses) > 2 {
		c.Sched.Pauses = c.Sched.Pauses[:2]
	}
	c.Start = rapid.Int64Range(0, 1<<33).Draw(t, "start")
	if rapid.IntRange(0, 4).Draw(t, "txnOutOfBlacklistedDb") == 0 {
		// the stream stands in a blacklisted database when a transaction of another database is propagated the way Redis 7 does it:
		// MULTI, SELECT <db>, commands, EXEC (the MULTI carries no database)
		black := rapid.IntRange(0, 15).Draw(t, "blackDb")
		c.Cfg.DbBlacklist = []int{black}
		delete(c.Cfg.DbMap, black)
		allowed := (black + rapid.IntRange(1, 15).Draw(t, "allowedDelta")) % 16
		sel := func(db int) gen.SrcCmd { return gen.SrcCmd{Name: "SELECT", Args: []pbt.B{[]byte(strconv.Itoa(db))}} }
		var cmds []gen.SrcCmd
		cmds = append(cmds, sel(allowed))
		for i, k := 0, rapid.IntRange(0, 2).Draw(t, "lead"); i < k; i++ {
			cmds = append(cmds, gen.GenDataCmd().Draw(t, "leadCmd"))
		}
		cmds = append(cmds, sel(black))
		for i, k := 0, rapid.IntRange(0, 2).Draw(t, "inBlack"); i < k; i++ {
			cmds = append(cmds, gen.GenDataCmd().Draw(t, "blackCmd"))
		}
		cmds = append(cmds, gen.SrcCmd{Name: "MULTI"}, sel(allowed))
		for i, k := 0, rapid.SampledFrom([]int{1, 2, 3, 5, 8}).Draw(t, "txnLen"); i < k; i++ {
			cmds = append(cmds, gen.GenDataCmd().Draw(t, "txnCmd"))
		}
		cmds = append(cmds, gen.SrcCmd{Name: "EXEC"})
		for i, k := 0, rapid.IntRange(0, 3).Draw(t, "tail"); i < k; i++ {
			cmds = append(cmds, gen.GenDataCmd().Draw(t, "tailCmd"))
		}
		c.Cmds = cmds
	}
	return c
}

type failure struct{ sig, msg string }

func eqArgs(a, b [][]byte) bool {
	if len(a) != len(b) {
		return false
	}
	for i := range a {
		if !bytes.Equal(a[i], b[i]) {
			return false
		}
	}
	return true
}

// judge: per run, per source transaction.
func judge(tr *replay.Trace) []failure {
	var fs []failure
	m := tr.Model
	exp := m.Expected
	// transaction -> expected indexes, and the end offset of its EXEC
	txnCmds := map[int][]int{}
	for i, e := range exp {
		if e.Txn >= 0 {
			txnCmds[e.Txn] = append(txnCmds[e.Txn], i)
		}
	}
	execEnd := map[int]int64{}
	for i, c := range tr.Cmds {
		if c.Lower() == "exec" && m.TxnOf[i] >= 0 {
			execEnd[m.TxnOf[i]] = m.Ends[i]
		}
	}
	for k, run := range tr.Runs {
		if run.FeedFrom < m.Start || run.FeedFrom > m.Ends[len(m.Ends)-1] {
			return fs
		}
		a := replay.ExpectedIndexAfter(m, run.FeedFrom)
		got := replay.DataLog(run.SendLog)
		groupsOf := map[int]map[int]bool{}
		countOf := map[int]int{}
		for i, g := range got {
			if a+i >= len(exp) {
				break
			}
			e := exp[a+i]
			if e.Cmd != g.Cmd || !eqArgs(e.Args, g.Args) {
				break // alignment lost: C02's oracle reports that
			}
			if e.Txn < 0 {
				continue
			}
			if groupsOf[e.Txn] == nil {
				groupsOf[e.Txn] = map[int]bool{}
			}
			groupsOf[e.Txn][g.Group] = true
			countOf[e.Txn]++
		}
		offs := replay.OffsetWrites(run.Log)
		for T, gs := range groupsOf {
			if len(gs) > 1 {
				fs = append(fs, failure{"transaction-split-across-target-transactions", fmt.Sprintf("run %d: the %d commands of source transaction %d were executed in %d different target MULTI/EXEC groups", k, len(txnCmds[T]), T, len(gs))})
				continue
			}
			if countOf[T] < len(txnCmds[T]) {
				fs = append(fs, failure{"transaction-partially-executed", fmt.Sprintf("run %d: only %d of the %d commands of source transaction %d were executed (resume offset %d)", k, countOf[T], len(txnCmds[T]), T, run.FeedFrom)})
				continue
			}
			var g int
			for x := range gs {
				g = x
			}
			covered := false
			for _, w := range offs {
				if w.Group == g && w.Value >= execEnd[T] {
					covered = true
				}
			}
			if !covered {
				fs = append(fs, failure{"transaction-without-covering-checkpoint", fmt.Sprintf("run %d: the target transaction that executed source transaction %d does not also store a resume position >= %d (the end of its EXEC)", k, T, execEnd[T])})
			}
		}
	}
	return fs
}

func check(t pbt.TB, c replay.Case) {
	st := pbt.For(prop)
	st.Case()
	cj := pbt.JSON(c)
	base := replay.Execute(c, nil)
	st.Eval(1)
	if base.Inconc != "" {
		st.Inconc(base.Inconc)
		return
	}
	report := func(tr *replay.Trace, faults []replay.Fault) {
		fs := judge(tr)
		if len(fs) == 0 {
			return
		}
		fj := pbt.JSON(FCase{c, faults})
		for _, f := range fs {
			st.Fail(t, f.sig, f.msg, fj, map[string]any{"runs": tr.Runs})
		}
	}
	report(base, nil)
	R := base.Runs[0].SendReqs
	if R > 90 {
		R = 90
	}
	// measured non-triviality
	longTxn, anyTxn := false, false
	cnt := map[int]int{}
	for _, e := range base.Model.Expected {
		if e.Txn >= 0 {
			cnt[e.Txn]++
			anyTxn = true
		}
	}
	for _, n := range cnt {
		if uint(n) > c.Cfg.BatchCmdCount {
			longTxn = true
		}
	}
	insideHit := false
	reqs := base.Runs[0].Reqs[len(base.Runs[0].Reqs)-base.Runs[0].SendReqs:]
	for _, mode := range []string{"crash", "stop"} {
		for n := 1; n <= R; n++ {
			faults := []replay.Fault{{Mode: mode, At: n}}
			tr := replay.Execute(c, faults)
			st.Eval(len(tr.Runs))
			st.Fault(1)
			if tr.Inconc != "" {
				st.Inconc(tr.Inconc)
				continue
			}
			if n <= len(reqs) && (reqs[n-1].Queued || reqs[n-1].Cmd == "multi") {
				insideHit = true
			}
			report(tr, faults)
		}
	}
	st.ClassIf(longTxn, "transaction-longer-than-batch")
	st.ClassIf(anyTxn, "has-transaction")
	st.ClassIf(insideHit, "fault-inside-target-multi")
	st.ClassIf(c.Cfg.Pipeline, "pipeline")
	if anyTxn && (longTxn || insideHit) {
		st.NonTrivial(cj)
	} else {
		st.Sample(cj)
	}
}

func TestC09(t *testing.T) {
	rapid.Check(t, func(t *rapid.T) { check(t, genCase(t)) })
}

// TestC09Keepalive: idle gaps longer than the keep-alive ticker placed around and inside source transactions.
func TestC09Keepalive(t *testing.T) {
	rapid.Check(t, func(t *rapid.T) {
		yes := true
		cfg, cmds, sched := gen.GenKeepaliveCase(t, &yes)
		c := replay.Case{Cfg: cfg, Cmds: cmds, Sched: sched, Start: rapid.Int64Range(0, 1<<33).Draw(t, "start")}
		st := pbt.For(prop)
		st.Case()
		cj := pbt.JSON(c)
		base := replay.Execute(c, nil)
		st.Eval(1)
		if base.Inconc != "" {
			st.Inconc(base.Inconc)
			return
		}
		report := func(tr *replay.Trace, faults []replay.Fault) {
			fj := pbt.JSON(FCase{c, faults})
			for _, f := range judge(tr) {
				st.Fail(t, f.sig, f.msg, fj, map[string]any{"runs": tr.Runs})
			}
		}
		report(base, nil)
		win := replay.IdleWindow(&base.Runs[0], 800, 5)
		if len(win) == 0 {
			st.Sample(cj)
			st.Class("keepalive:no-request-after-idle-gap")
			return
		}
		st.Class("keepalive:flush-after-idle-gap")
		for _, mode := range []string{"crash", "stop"} {
			for _, n := range win {
				faults := []replay.Fault{{Mode: mode, At: n}}
				tr := replay.Execute(c, faults)
				st.Eval(len(tr.Runs))
				st.Fault(1)
				if tr.Inconc != "" {
					st.Inconc(tr.Inconc)
					continue
				}
				report(tr, faults)
			}
		}
		st.NonTrivial(cj)
	})
}

func TestC09Replay(t *testing.T) {
	if os.Getenv("VERIF_REPLAY") == "" {
		t.Skip("no VERIF_REPLAY")
	}
	v, err := pbt.LoadReplay()
	if err != nil {
		t.Fatal(err)
	}
	var c FCase
	if err := json.Unmarshal(v.Case, &c); err != nil {
		t.Fatal(err)
	}
	for i := 0; i < 5; i++ {
		tr := replay.Execute(c.Case, c.Faults)
		if tr.Inconc != "" {
			continue
		}
		for _, f := range judge(tr) {
			pbt.For(prop).Fail(t, f.sig, f.msg, v.Case, map[string]any{"runs": tr.Runs})
		}
	}
}
