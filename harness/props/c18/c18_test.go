// C18 — cluster-mode bidirectional units are single-slot or refused, never best-effort.
//
// Generated: source streams of single commands and MULTI/EXEC transactions over the reference key-position table, keys with
// every brace arrangement, optionally reduced by prefix filters; cluster layouts; the three replay modes.
// Oracle: the reference slot function (ref/hashslot, bitwise CRC16 + the cluster specification's hash-tag rule) over the
// keys the reference table finds. Every transaction any node receives must address one slot (control keys included) and
// carry exactly the (filtered) commands of one source unit; the first unit whose keys are undeterminable or span slots
// must end Send with an error with nothing of it (or of anything behind it) sent; a stream without such a unit must be
// replayed to its end without an error.
package c18

import (
	"bufio"
	"bytes"
	"context"
	"encoding/json"
	"errors"
	"fmt"
	"io"
	"os"
	"sort"
	"strings"
	"testing"
	"time"

	"pgregory.net/rapid"

	"verifharness/bsync"
	"verifharness/fake"
	"verifharness/gen"
	"verifharness/pbt"
	"verifharness/ref/filtermodel"
	"verifharness/ref/hashslot"
	"verifharness/ref/keyspec"
	"verifharness/ref/resp"
)

const prop = "C18"

func TestMain(m *testing.M) { pbt.Main(m) }

type Cmd struct {
	Name string  `json:"name"`
	Args []pbt.B `json:"args"`
}

type Unit struct {
	Txn  bool  `json:"txn"`
	Cmds []Cmd `json:"cmds"`
	Ping bool  `json:"ping,omitempty"` // a PING precedes the unit in the stream
	// Reduced: carries a multi-key command of which the filters take out a key of another slot
	Reduced bool `json:"reduced,omitempty"`
}

type Case struct {
	Nodes  int           `json:"nodes"`
	Bounds []int         `json:"bounds"`
	Link   bsync.LinkCfg `json:"link"`
	Units  []Unit        `json:"units"`
}

var tags = []string{"a", "b", "c", "user1", "x:y", "k", "caf\u00e9", "\u7528\u6237:1001", "\x80\xfe", "\u00fc"}

// classKey: a key that the cluster specification hashes as tag t.
func classKey(t *rapid.T, tag string) []byte {
	switch rapid.IntRange(0, 8).Draw(t, "shape") {
	case 0:
		return []byte(tag)
	case 1:
		return []byte("{" + tag + "}")
	case 2:
		return []byte("{" + tag + "}k")
	case 3:
		return []byte("k{" + tag + "}")
	case 4:
		return []byte("k{" + tag + "}m")
	case 5:
		return []byte("{" + tag + "}{zz}")
	case 6:
		return []byte("}{" + tag + "}")
	case 7:
		return []byte("{" + tag + "}}x")
	default:
		return []byte("q{" + tag + "}{" + tag + "x}")
	}
}

// exoticKey: brace arrangements whose slot is NOT that of tag t although t appears in them.
func exoticKey(t *rapid.T, tag string) []byte {
	switch rapid.IntRange(0, 9).Draw(t, "exotic") {
	case 0:
		return []byte("{}" + tag)
	case 1:
		return []byte("{" + tag)
	case 2:
		return []byte(tag + "}")
	case 3:
		return []byte("{{" + tag + "}}")
	case 4:
		return []byte("p{" + tag + "{c}d}")
	case 5:
		return []byte("")
	case 6:
		return []byte("{}{" + tag + "}")
	case 7:
		return []byte("{}")
	case 8:
		return append([]byte{0xff, '{'}, append([]byte(tag), 0x00, '}')...)
	default:
		return []byte(tag + "{" + tag + "z}")
	}
}

type keyGen struct {
	t        *rapid.T
	tag      string
	coherent bool
}

func (g keyGen) key() pbt.B {
	if g.coherent {
		return classKey(g.t, g.tag)
	}
	switch rapid.IntRange(0, 3).Draw(g.t, "mix") {
	case 0:
		return exoticKey(g.t, g.tag)
	case 1:
		return classKey(g.t, rapid.SampledFrom(tags).Draw(g.t, "othertag"))
	default:
		return classKey(g.t, g.tag)
	}
}

func b(s string) pbt.B { return pbt.B(s) }

func genCmd(t *rapid.T, g keyGen, allowUnknown bool) Cmd {
	v := b(fmt.Sprintf("v%d", rapid.IntRange(0, 999).Draw(t, "val")))
	n := 27
	if allowUnknown {
		n = 30
	}
	switch rapid.IntRange(0, n).Draw(t, "cmd") {
	case 0, 1, 2:
		return Cmd{"set", []pbt.B{g.key(), v}}
	case 3:
		return Cmd{"incr", []pbt.B{g.key()}}
	case 4:
		return Cmd{"rpush", []pbt.B{g.key(), v, v}}
	case 5:
		return Cmd{"hset", []pbt.B{g.key(), b("f"), v}}
	case 6:
		return Cmd{"sadd", []pbt.B{g.key(), v}}
	case 7:
		return Cmd{"zadd", []pbt.B{g.key(), b("1"), v}}
	case 8:
		return Cmd{"expire", []pbt.B{g.key(), b("100")}}
	case 9, 10:
		return Cmd{"rename", []pbt.B{g.key(), g.key()}}
	case 11:
		return Cmd{"smove", []pbt.B{g.key(), g.key(), v}}
	case 12:
		return Cmd{"lmove", []pbt.B{g.key(), g.key(), b("LEFT"), b("RIGHT")}}
	case 13, 14:
		c := Cmd{Name: "del"}
		for i, k := 0, rapid.IntRange(1, 4).Draw(t, "nkeys"); i < k; i++ {
			c.Args = append(c.Args, g.key())
		}
		return c
	case 15:
		c := Cmd{Name: "unlink"}
		for i, k := 0, rapid.IntRange(1, 3).Draw(t, "nkeys"); i < k; i++ {
			c.Args = append(c.Args, g.key())
		}
		return c
	case 16, 17:
		c := Cmd{Name: "mset"}
		for i, k := 0, rapid.IntRange(1, 4).Draw(t, "nkeys"); i < k; i++ {
			c.Args = append(c.Args, g.key(), v)
		}
		return c
	case 18:
		c := Cmd{Name: "sunionstore", Args: []pbt.B{g.key()}}
		for i, k := 0, rapid.IntRange(1, 3).Draw(t, "nkeys"); i < k; i++ {
			c.Args = append(c.Args, g.key())
		}
		return c
	case 19:
		return Cmd{"bitop", []pbt.B{b("AND"), g.key(), g.key(), g.key()}}
	case 20:
		return Cmd{"zunionstore", []pbt.B{g.key(), b("2"), g.key(), g.key()}}
	case 21:
		return Cmd{"eval", []pbt.B{b("return 1"), b("2"), g.key(), g.key(), v}}
	case 22:
		return Cmd{"pfmerge", []pbt.B{g.key(), g.key()}}
	case 23:
		return Cmd{"copy", []pbt.B{g.key(), g.key()}}
	case 24:
		return Cmd{"append", []pbt.B{g.key(), v}}
	case 25:
		// write forms of GEORADIUS: the destination is the key after the LAST of STORE / STOREDIST
		c := Cmd{"georadius", []pbt.B{g.key(), b("13.3"), b("38.1"), b("200"), b("km")}}
		if rapid.Bool().Draw(t, "count") {
			c.Args = append(c.Args, b("COUNT"), b("3"))
		}
		for i, k := 0, rapid.IntRange(1, 2).Draw(t, "nstore"); i < k; i++ {
			c.Args = append(c.Args, b(rapid.SampledFrom([]string{"STORE", "STOREDIST", "store"}).Draw(t, "storeopt")), g.key())
		}
		return c
	case 26:
		c := Cmd{"georadiusbymember", []pbt.B{g.key(), b(rapid.SampledFrom([]string{"Palermo", "store", "STOREDIST"}).Draw(t, "member")), b("200"), b("km")}}
		for i, k := 0, rapid.IntRange(1, 2).Draw(t, "nstore"); i < k; i++ {
			c.Args = append(c.Args, b(rapid.SampledFrom([]string{"STORE", "STOREDIST"}).Draw(t, "storeopt")), g.key())
		}
		return c
	case 27:
		// SORT ... STORE: the destination is the key after the LAST STORE; LIMIT / GET # / BY nosort carry no keys
		c := Cmd{"sort", []pbt.B{g.key()}}
		if rapid.Bool().Draw(t, "limit") {
			c.Args = append(c.Args, b("LIMIT"), b("0"), b("5"))
		}
		if rapid.Bool().Draw(t, "by") {
			c.Args = append(c.Args, b("BY"), b("nosort"))
		}
		for i, k := 0, rapid.IntRange(1, 2).Draw(t, "nstore"); i < k; i++ {
			c.Args = append(c.Args, b("STORE"), g.key())
		}
		return c
	case 28:
		return Cmd{"foo.bar", []pbt.B{g.key(), v}} // a command neither the static table nor COMMAND GETKEYS knows
	case 29:
		return Cmd{"eval", []pbt.B{b("return 1"), b("abc"), g.key()}} // numkeys is not a number: keys undeterminable
	default:
		return Cmd{"mycommand", []pbt.B{v, g.key()}}
	}
}

func genCase(t *rapid.T) Case {
	c := Case{Nodes: rapid.IntRange(1, 3).Draw(t, "nodes")}
	if c.Nodes > 1 {
		bs := rapid.SliceOfNDistinct(rapid.IntRange(1, 16383), c.Nodes-1, c.Nodes-1, rapid.ID[int]).Draw(t, "bounds")
		sort.Ints(bs)
		c.Bounds = bs
	}
	c.Link.Mode = rapid.SampledFrom([]string{"sync", "pipeline", "parallel"}).Draw(t, "mode")
	c.Link.Batch = uint(rapid.SampledFrom([]int{1, 2, 8}).Draw(t, "batch"))
	if c.Link.Mode == "parallel" {
		c.Link.Parallelism = rapid.IntRange(1, 3).Draw(t, "parallelism")
	}
	filtered := rapid.IntRange(0, 3).Draw(t, "filtered") == 0
	if filtered {
		c.Link.PrefixBlack = rapid.SliceOfNDistinct(rapid.SampledFrom([]string{"k", "{b}", "}", "q{", "{c", "user1", "{}"}), 1, 3, rapid.ID[string]).Draw(t, "black")
	}
	// most streams are entirely replayable; some carry one unroutable unit
	bad := rapid.IntRange(0, 2).Draw(t, "bad") == 0
	nu := rapid.IntRange(1, 10).Draw(t, "nunits")
	badAt := -1
	if bad {
		badAt = rapid.IntRange(0, nu-1).Draw(t, "badAt")
	}
	for i := 0; i < nu; i++ {
		u := Unit{Txn: rapid.IntRange(0, 2).Draw(t, "txn") > 0, Ping: rapid.IntRange(0, 5).Draw(t, "ping") == 0}
		g := keyGen{t: t, tag: rapid.SampledFrom(tags).Draw(t, "tag"), coherent: i != badAt}
		nc := 1
		if u.Txn {
			nc = rapid.IntRange(1, 4).Draw(t, "ncmds")
		}
		for j := 0; j < nc; j++ {
			u.Cmds = append(u.Cmds, genCmd(t, g, i == badAt && !filtered))
		}
		if i != badAt && rapid.IntRange(0, 3).Draw(t, "reducedToOneSlot") == 0 {
			// a multi-key DEL / UNLINK / MSET that the filters reduce: the key that is taken out (a reserved bookkeeping name, always
			// filtered, or a key under a blacklisted prefix) lies in ANOTHER slot than the keys that remain - what is left is single-slot
			foreign := []byte("redis-gunyu-checkpoint-old")
			if len(c.Link.PrefixBlack) > 0 && rapid.Bool().Draw(t, "foreignByPrefix") {
				other := rapid.SampledFrom(tags).Draw(t, "foreignTag")
				foreign = []byte(c.Link.PrefixBlack[0] + "zz{" + other + "}")
			}
			var cmd Cmd
			switch rapid.IntRange(0, 2).Draw(t, "reducedCmd") {
			case 0:
				cmd = Cmd{Name: "del", Args: []pbt.B{g.key(), foreign}}
			case 1:
				cmd = Cmd{Name: "unlink", Args: []pbt.B{foreign, g.key(), g.key()}}
			default:
				cmd = Cmd{Name: "mset", Args: []pbt.B{g.key(), b("v1"), foreign, b("v2")}}
			}
			at := rapid.IntRange(0, len(u.Cmds)).Draw(t, "reducedAt")
			if !u.Txn {
				u.Cmds = []Cmd{cmd}
			} else {
				u.Cmds = append(u.Cmds[:at], append([]Cmd{cmd}, u.Cmds[at:]...)...)
			}
			u.Reduced = true
		}
		c.Units = append(c.Units, u)
	}
	return c
}

type kept struct {
	name string
	args [][]byte
}

type verdict struct {
	class string // empty | single | multi | undetermined
	cmds  []kept
	why   string
	nkeys int
}

// classify is the reference reading of one source unit under the link's filters.
func classify(u Unit, f filtermodel.Config) verdict {
	var v verdict
	slots := map[uint16]bool{}
	for _, cm := range u.Cmds {
		if f.CmdRejected(cm.Name) {
			continue
		}
		args := pbt.Raw(cm.Args)
		if _, ok := keyspec.Keys(cm.Name, args); !ok {
			v.class, v.why = "undetermined", fmt.Sprintf("the keys of %s cannot be determined", cm.Name)
			return v
		}
		out, withheld := f.Apply(cm.Name, args)
		if withheld {
			continue
		}
		idx, _ := keyspec.Keys(cm.Name, out)
		for _, i := range idx {
			slots[hashslot.Slot(out[i])] = true
			v.nkeys++
		}
		v.cmds = append(v.cmds, kept{strings.ToLower(cm.Name), out})
	}
	switch {
	case len(v.cmds) == 0:
		v.class = "empty"
	case len(slots) == 1:
		v.class = "single"
	default:
		v.class = "multi"
		var ss []int
		for s := range slots {
			ss = append(ss, int(s))
		}
		sort.Ints(ss)
		v.why = fmt.Sprintf("its keys span the slots %v", ss)
	}
	return v
}

type failure struct{ sig, msg string }

// commands of a real Redis (outside the write table) whose only key is their first argument
var redisOneKey = map[string]bool{"get": true, "exists": true, "type": true, "ttl": true, "pttl": true, "hget": true, "hgetall": true, "hmget": true, "hlen": true,
	"hexists": true, "hkeys": true, "hvals": true, "zrangebyscore": true, "zrange": true, "zscore": true, "zcard": true, "smembers": true, "scard": true, "lrange": true, "llen": true,
	"strlen": true, "dump": true, "object": false}

const sentinel = "__verif_end"

func run(c Case) (fs []failure, inconc string, facts map[string]bool, hist any) {
	gen.QuietLogs()
	facts = map[string]bool{}
	pbt.For(prop).Eval(1)
	cs := fake.NewClusterSet(c.Nodes)
	defer cs.Close()
	cs.SetLayout(c.Bounds)
	getkeys := func(args [][]byte) resp.Reply {
		// COMMAND GETKEYS as a real node answers it: the keys of a command it knows, an error otherwise
		if len(args) >= 2 && strings.EqualFold(string(args[0]), "getkeys") {
			idx, ok := keyspec.Keys(string(args[1]), args[2:])
			if !ok && redisOneKey[strings.ToLower(string(args[1]))] && len(args) > 2 {
				return resp.Array{resp.Bulk(string(args[2]))}
			}
			if !ok {
				if keyspec.Known(string(args[1])) {
					return resp.Err("ERR Invalid arguments specified for command")
				}
				return resp.Err("ERR Invalid command specified")
			}
			out := resp.Array{}
			for _, i := range idx {
				out = append(out, resp.Bulk(string(args[2+i])))
			}
			return out
		}
		return resp.Array{}
	}
	for _, n := range cs.Nodes {
		n.GenericWrites = true
		n.CommandHook = getkeys
	}
	tgt := &bsync.Target{Set: cs}

	// the source stream
	const start = int64(5000)
	var stream []byte
	var ends []int
	add := func(args ...[]byte) {
		stream = append(stream, resp.Cmd(args...)...)
		ends = append(ends, len(stream))
	}
	add([]byte("SELECT"), []byte("0"))
	units := append([]Unit(nil), c.Units...)
	units = append(units, Unit{Cmds: []Cmd{{"set", []pbt.B{b(sentinel), b("1")}}}})
	unitEnd := make([]int64, len(units))
	for i, u := range units {
		if u.Ping {
			add([]byte("PING"))
		}
		if u.Txn {
			add([]byte("MULTI"))
		}
		for _, cm := range u.Cmds {
			add(append([][]byte{[]byte(cm.Name)}, pbt.Raw(cm.Args)...)...)
		}
		if u.Txn {
			add([]byte("EXEC"))
		}
		unitEnd[i] = start + int64(len(stream))
	}
	fm := filtermodel.Config{PrefixBlack: c.Link.PrefixBlack, PrefixWhite: c.Link.PrefixWhite, CmdBlack: c.Link.CmdBlack}
	vs := make([]verdict, len(units))
	refuse := -1
	byEnd := map[int64]int{}
	for i, u := range units {
		vs[i] = classify(u, fm)
		byEnd[unitEnd[i]] = i
		if refuse < 0 && (vs[i].class == "multi" || vs[i].class == "undetermined") {
			refuse = i
		}
		if vs[i].nkeys >= 2 {
			facts["multi-key-unit"] = true
		}
		if vs[i].class == "single" && len(vs[i].cmds) < len(u.Cmds) {
			facts["reduced-by-filter"] = true
		}
	}
	facts["must-refuse"] = refuse >= 0
	if refuse >= 0 {
		facts["refuse:"+vs[refuse].class] = true
	}

	ids := []string{"7777777777777777777777777777777777777777", ""}
	ro, _, err := bsync.StartUp(tgt, c.Link, ids)
	if err != nil {
		return nil, "start-up failed: " + err.Error(), facts, nil
	}
	for _, n := range cs.Nodes {
		n.ResetLog()
	}
	pr, pw := io.Pipe()
	ctx, cancel := context.WithCancel(context.Background())
	defer cancel()
	done := make(chan error, 1)
	go func() {
		done <- ro.Send(ctx, &gen.Reader{R: bufio.NewReaderSize(pr, 4096), LeftV: start, RunID: ids[0], Aof: true, SizeV: -1})
	}()
	go func() {
		pos := 0
		for _, e := range ends {
			if _, err := pw.Write(stream[pos:e]); err != nil {
				return
			}
			pos = e
		}
	}()
	sawEnd := func() bool {
		for _, n := range cs.Nodes {
			lg, _ := n.SnapshotLog()
			for _, e := range lg {
				if e.Cmd == "set" && len(e.Args) > 0 && string(e.Args[0]) == sentinel {
					return true
				}
			}
		}
		return false
	}
	var sendErr error
	returned, ended := false, false
	deadline := time.Now().Add(20 * time.Second)
	for !returned && !ended && time.Now().Before(deadline) {
		select {
		case sendErr = <-done:
			returned = true
			continue
		default:
		}
		if sawEnd() {
			// give the tool a moment to report an error it may be about to report
			select {
			case sendErr = <-done:
				returned = true
			case <-time.After(30 * time.Millisecond):
			}
			ended = true
			break
		}
		time.Sleep(time.Millisecond)
	}
	selfReturned := returned
	cancel()
	if !returned {
		select {
		case sendErr = <-done:
		case <-time.After(15 * time.Second):
			pw.Close()
			return nil, "Send did not return within 15 s after the stop", facts, nil
		}
	}
	pw.Close()
	for _, n := range cs.Nodes {
		n.WaitIdle(time.Second)
	}
	reported := selfReturned && sendErr != nil && !errors.Is(sendErr, context.Canceled)

	// what the nodes received: transactions per connection, including ones that were refused or never executed
	type rblock struct {
		node   string
		cmds   [][][]byte
		replyX string
	}
	var rblocks []rblock
	var reqLog []string
	for _, n := range cs.Nodes {
		_, rq := n.SnapshotLog()
		open := map[int]*rblock{}
		for _, r := range rq {
			reqLog = append(reqLog, fmt.Sprintf("%06d %s c%d %s %v -> %s", r.Seq, n.Addr(), r.Conn, r.Cmd, r.ArgsS, r.Reply))
			switch {
			case r.Cmd == "multi":
				open[r.Conn] = &rblock{node: n.Addr()}
			case r.Cmd == "exec":
				if bl := open[r.Conn]; bl != nil {
					bl.replyX = r.Reply
					rblocks = append(rblocks, *bl)
					delete(open, r.Conn)
				}
			default:
				if bl := open[r.Conn]; bl != nil {
					bl.cmds = append(bl.cmds, append([][]byte{[]byte(r.Cmd)}, r.Args...))
				} else if len(r.Args) > 0 && !bytes.HasPrefix(r.Args[0], []byte("redis-gunyu-")) {
					switch r.Cmd {
					case "ping", "info", "select", "command", "cluster", "client", "auth", "echo", "asking", "readonly":
					default:
						fs = append(fs, failure{"business-command-outside-transaction", fmt.Sprintf("node %s received %s %v outside a MULTI/EXEC block", n.Addr(), r.Cmd, r.ArgsS)})
					}
				}
			}
		}
		for _, bl := range open {
			rblocks = append(rblocks, *bl) // MULTI without EXEC (connection dropped): still counts as sent
		}
	}
	sort.Strings(reqLog)
	if len(reqLog) > 200 {
		reqLog = reqLog[len(reqLog)-200:]
	}
	var verdicts []string
	for i, v := range vs {
		verdicts = append(verdicts, fmt.Sprintf("unit %d (end %d): %s %s", i, unitEnd[i], v.class, v.why))
	}
	hist = map[string]any{"send_err": fmt.Sprint(sendErr), "send_returned_by_itself": selfReturned, "reference": verdicts, "requests": reqLog}

	sentUnits := map[int]bool{}
	for _, bl := range rblocks {
		if len(bl.cmds) == 0 {
			continue
		}
		// every key of the block, as the reference table finds them
		slots := map[uint16][]string{}
		for _, cm := range bl.cmds {
			for _, k := range fake.KeysOf(strings.ToLower(string(cm[0])), cm[1:]) {
				s := hashslot.Slot(k)
				slots[s] = append(slots[s], fmt.Sprintf("%q", k))
			}
		}
		if len(slots) != 1 {
			fs = append(fs, failure{"transaction-spans-slots", fmt.Sprintf("node %s received a transaction whose keys hash to %d slots: %v (EXEC answered %s)", bl.node, len(slots), slots, bl.replyX)})
		}
		if strings.HasPrefix(bl.replyX, "-CROSSSLOT") {
			fs = append(fs, failure{"transaction-spans-slots", fmt.Sprintf("node %s refused a transaction with CROSSSLOT", bl.node)})
		}
		// which unit is it ?
		first := bl.cmds[0]
		var mk bsync.Marker
		if !(string(first[0]) == "set" && len(first) >= 3 && strings.Contains(string(first[1]), ":marker:{") && json.Unmarshal(first[2], &mk) == nil) {
			fs = append(fs, failure{"transaction-without-marker", fmt.Sprintf("node %s received a transaction that does not start with a marker: %q", bl.node, first)})
			continue
		}
		ui, ok := byEnd[mk.EndOffset]
		if !ok {
			fs = append(fs, failure{"unit-boundary-unknown", fmt.Sprintf("a transaction claims to replay the source up to offset %d, which ends no source unit", mk.EndOffset)})
			continue
		}
		sentUnits[ui] = true
		var biz []kept
		for _, cm := range bl.cmds[1:] {
			if len(cm) > 1 && bytes.HasPrefix(cm[1], []byte("redis-gunyu-")) {
				continue
			}
			biz = append(biz, kept{string(cm[0]), cm[1:]})
		}
		v := vs[ui]
		if refuse >= 0 && ui >= refuse {
			what := "follows"
			if ui == refuse {
				what = "is"
			}
			fs = append(fs, failure{"unroutable-unit-sent", fmt.Sprintf("unit %d %s the unit that must be refused (%s) but a transaction with %d of its commands was sent: %v", ui, what, vs[refuse].why, len(biz), show(biz))})
			continue
		}
		if !sameCmds(biz, v.cmds) {
			fs = append(fs, failure{"unit-replayed-approximately", fmt.Sprintf("unit %d: the transaction carries %v, the (filtered) source unit is %v", ui, show(biz), show(v.cmds))})
		}
		if int(hashslot.Slot([]byte(first[1]))) != mk.Slot {
			fs = append(fs, failure{"marker-slot-mismatch", fmt.Sprintf("unit %d: marker says slot %d, its key %q hashes to %d", ui, mk.Slot, first[1], hashslot.Slot([]byte(first[1])))})
		}
	}
	if refuse >= 0 {
		if !reported {
			fs = append(fs, failure{"unroutable-unit-not-refused", fmt.Sprintf("unit %d must be refused (%s); Send returned by itself=%v with %v; the end of the stream was applied: %v", refuse, vs[refuse].why, selfReturned, sendErr, ended)})
		}
	} else {
		if reported {
			fs = append(fs, failure{"single-slot-unit-refused", fmt.Sprintf("every unit is single-slot (or filtered out) but Send stopped with: %v", sendErr)})
		} else if !ended {
			if !selfReturned {
				return fs, "the end of the stream was not reached within 20 s", facts, hist
			}
			fs = append(fs, failure{"single-slot-unit-refused", fmt.Sprintf("Send returned (%v) before the end of a fully routable stream", sendErr)})
		} else {
			for i, v := range vs {
				if v.class == "single" && !sentUnits[i] {
					fs = append(fs, failure{"unit-not-replayed", fmt.Sprintf("unit %d is single-slot but no transaction for it reached the cluster", i)})
				}
			}
		}
	}
	nodesHit := map[string]bool{}
	for _, bl := range rblocks {
		nodesHit[bl.node] = true
	}
	facts["spans-nodes"] = len(nodesHit) >= 2
	return fs, "", facts, hist
}

func show(ks []kept) []string {
	var out []string
	for _, k := range ks {
		s := k.name
		for _, a := range k.args {
			s += fmt.Sprintf(" %q", a)
		}
		out = append(out, s)
	}
	return out
}

func sameCmds(a, b []kept) bool {
	if len(a) != len(b) {
		return false
	}
	for i := range a {
		if !strings.EqualFold(a[i].name, b[i].name) || len(a[i].args) != len(b[i].args) {
			return false
		}
		for j := range a[i].args {
			if !bytes.Equal(a[i].args[j], b[i].args[j]) {
				return false
			}
		}
	}
	return true
}

func check(t pbt.TB, c Case) {
	st := pbt.For(prop)
	st.Case()
	cj := pbt.JSON(c)
	fs, inconc, facts, hist := run(c)
	if inconc != "" && len(fs) == 0 {
		st.Inconc(inconc)
		return
	}
	for k, v := range facts {
		st.ClassIf(v, k)
	}
	st.Class("mode:" + c.Link.Mode)
	st.ClassIf(len(c.Link.PrefixBlack) > 0, "filtered")
	for _, u := range c.Units {
		if u.Reduced {
			st.Class("unit-reduced-to-one-slot-by-filters")
			break
		}
	}
	if facts["multi-key-unit"] || facts["must-refuse"] {
		st.NonTrivial(cj)
	} else {
		st.Sample(cj)
	}
	for _, f := range fs {
		st.Fail(t, f.sig, f.msg, cj, hist)
	}
}

func TestC18(t *testing.T) {
	rapid.Check(t, func(t *rapid.T) { check(t, genCase(t)) })
}

func TestC18Replay(t *testing.T) {
	if os.Getenv("VERIF_REPLAY") == "" {
		t.Skip("no VERIF_REPLAY")
	}
	v, err := pbt.LoadReplay()
	if err != nil {
		t.Fatal(err)
	}
	var c Case
	if err := json.Unmarshal(v.Case, &c); err != nil {
		t.Fatal(err)
	}
	for i := 0; i < 3; i++ {
		check(t, c)
	}
}
