// C07 — the stored resume position only moves forward along command boundaries.
package c07

import (
	"encoding/json"
	"fmt"
	"os"
	"testing"

	"pgregory.net/rapid"

	"verifharness/gen"
	"verifharness/pbt"
	"verifharness/replay"
)

const prop = "C07"

func TestMain(m *testing.M) { pbt.Main(m) }

type FCase struct {
	replay.Case
	Faults []replay.Fault `json:"faults"`
	Opts   replay.Opts    `json:"opts"`
	// PingIdle: the stream and schedule were shaped like an idle master's (PINGs surrounded by idle time, in front of barriers)
	PingIdle bool `json:"pingIdle,omitempty"`
}

func genCase(t *rapid.T) FCase {
	yes := true
	c := FCase{}
	c.Cfg = gen.GenOutCfg(t, &yes, nil)
	c.Cmds = gen.GenStream(t, c.Cfg, gen.StreamOpts{MaxCmds: 20, TxnBias: 2, SelectBias: 2, NoiseBias: 3})
	c.Sched = gen.GenSchedule(t, c.Cfg, true)
	if rapid.IntRange(0, 2).Draw(t, "pingIdle") == 0 || (len(c.Cfg.DbBlacklist) > 0 && rapid.Bool().Draw(t, "pingIdleInBlacklistedDb")) {
		// an idle master: keep-alive PINGs surrounded by idle time, in front of SELECT / MULTI
		c.Cmds, c.Sched = gen.PingIdle(t, c.Cfg, c.Cmds)
		c.PingIdle = true
	}
	// idle before the first item of a run, longer than the tickers
	if rapid.Bool().Draw(t, "leadIdle") {
		c.Sched.LeadMs = rapid.SampledFrom([]int{c.Cfg.CpTickerMs + 5, c.Cfg.CpTickerMs*2 + 5, c.Cfg.BatchTickerMs*3 + 5}).Draw(t, "leadMs")
	}
	if rapid.IntRange(0, 15).Draw(t, "leadKeepalive") == 0 {
		c.Sched.LeadMs = c.Cfg.KeepaliveMs + 50
	}
	c.Start = rapid.Int64Range(0, 1<<33).Draw(t, "start")
	nf := rapid.IntRange(1, 3).Draw(t, "nfaults")
	for i := 0; i < nf; i++ {
		c.Faults = append(c.Faults, replay.Fault{Mode: rapid.SampledFrom([]string{"crash", "stop", "stop"}).Draw(t, "mode"), At: rapid.IntRange(1, 60).Draw(t, "at")})
	}
	c.Opts.IdleRunMs = rapid.SampledFrom([]int{0, c.Cfg.CpTickerMs*2 + 5, c.Cfg.CpTickerMs*3 + 5}).Draw(t, "idleRun")
	c.Opts.AfterEndIdleMs = rapid.SampledFrom([]int{0, 0, c.Cfg.CpTickerMs*2 + 5}).Draw(t, "afterEndIdle")
	return c
}

type failure struct{ sig, msg string }

func judge(tr *replay.Trace) (fs []failure, facts map[string]bool) {
	facts = map[string]bool{}
	m := tr.Model
	var prev int64 = -1
	stored := false // a value >= 0 is stored
	for k, run := range tr.Runs {
		ws := replay.OffsetWrites(run.Log)
		// offset writes executed before the first data command of a run that started from a stored position
		firstData := -1
		for _, d := range replay.DataLog(run.SendLog) {
			firstData = d.Seq
			break
		}
		for _, w := range ws {
			if stored && k > 0 && (firstData < 0 || w.Seq < firstData) {
				facts["checkpoint-write-before-first-item-of-resumed-run"] = true
			}
			if w.Value < 0 {
				if stored {
					fs = append(fs, failure{"undefined-position-overwrites-good-one", fmt.Sprintf("run %d wrote resume position %s while %d was stored", k, w.Raw, prev)})
				}
				continue
			}
			ok := w.Value == run.FeedFrom || replay.IsBoundary(m, w.Value)
			if !ok {
				fs = append(fs, failure{"stored-position-not-a-command-boundary", fmt.Sprintf("run %d stored resume position %d which is neither the run's start offset %d nor the end of a source command", k, w.Value, run.FeedFrom)})
			}
			if stored && w.Value < prev {
				fs = append(fs, failure{"stored-position-decreased", fmt.Sprintf("run %d stored resume position %d after %d", k, w.Value, prev)})
			}
			prev = w.Value
			stored = true
		}
		if k+1 < len(tr.Runs) {
			nx := tr.Runs[k+1]
			if stored && (nx.SpRunID == "?" || nx.SpOffset < 0) {
				fs = append(fs, failure{"restart-finds-no-position-although-one-was-stored", fmt.Sprintf("run %d starts from 'none' (full resynchronisation) although position %d had been stored", k+1, prev)})
			} else if stored && nx.SpOffset != prev {
				// the position a restart reads back must be the newest one written
				fs = append(fs, failure{"restart-reads-other-position-than-last-stored", fmt.Sprintf("run %d starts from %d, the last stored position was %d", k+1, nx.SpOffset, prev)})
			}
		}
	}
	return fs, facts
}

func check(t pbt.TB, c FCase) {
	st := pbt.For(prop)
	st.Case()
	cj := pbt.JSON(c)
	tr := replay.ExecuteOpts(c.Case, c.Faults, c.Opts)
	st.Eval(len(tr.Runs))
	if tr.Inconc != "" {
		st.Inconc(tr.Inconc)
		return
	}
	fs, facts := judge(tr)
	for k := range facts {
		st.Class(k)
	}
	st.ClassIf(len(tr.Runs) >= 3, "restarts>=2")
	st.ClassIf(c.Cfg.Txn, "txn-mode")
	st.ClassIf(c.Cfg.Pipeline, "pipeline")
	st.ClassIf(c.PingIdle, "idle-master-pings")
	st.ClassIf(c.Sched.LeadMs > 1000, "keepalive-idle-before-first-item")
	last := tr.Runs[len(tr.Runs)-1]
	st.ClassIf(last.NothingLeft && c.Opts.IdleRunMs > 0, "restart-followed-by-pure-idleness")
	if facts["checkpoint-write-before-first-item-of-resumed-run"] {
		st.NonTrivial(cj)
	} else {
		st.Sample(cj)
	}
	for _, f := range fs {
		st.Fail(t, f.sig, f.msg, cj, map[string]any{"runs": tr.Runs})
	}
}

func TestC07(t *testing.T) {
	rapid.Check(t, func(t *rapid.T) { check(t, genCase(t)) })
}

func TestC07Replay(t *testing.T) {
	if os.Getenv("VERIF_REPLAY") == "" {
		t.Skip("no VERIF_REPLAY")
	}
	v, err := pbt.LoadReplay()
	if err != nil {
		t.Fatal(err)
	}
	var c FCase
	if err := json.Unmarshal(v.Case, &c); err != nil {
		t.Fatal(err)
	}
	for i := 0; i < 5; i++ {
		check(t, c)
	}
}
