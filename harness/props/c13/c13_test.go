// C13 — bidirectional sync never echoes its own writes nor swallows foreign ones.
//
// Two sites (real-executing doubles with a master-side propagation stream, 6.x or 7.x rewrite flavour), two links with
// bisync enabled, each replaying the other site's stream (snapshot of the live keyspace first, then the stream from the
// snapshot offset). Clients write at both sites while the links run.
//
// Ground truth: every command in a site's stream is tagged with the connection that caused it; connections opened by the
// harness' clients are named, the tool's are not. So "written by the tool" is known by construction and is never inferred
// from keys, values or markers - which is exactly what the tool has to infer.
package c13

import (
	"bufio"
	"bytes"
	"context"
	"encoding/json"
	"fmt"
	"io"
	"net"
	"os"
	"sort"
	"strings"
	"sync"
	"testing"
	"time"

	"pgregory.net/rapid"

	"verifharness/bsync"
	"verifharness/fake"
	"verifharness/fullsync"
	"verifharness/gen"
	"verifharness/pbt"
	"verifharness/ref/rdbgen"
	"verifharness/ref/resp"
)

const prop = "C13"

func TestMain(m *testing.M) { pbt.Main(m) }

type Op struct {
	Kind    string    `json:"kind"` // client | link
	Site    int       `json:"site"` // client: where the write is made; link: the link's SOURCE site
	Txn     bool      `json:"txn,omitempty"`
	Cmds    [][]pbt.B `json:"cmds,omitempty"`
	PauseMs int       `json:"pauseMs,omitempty"` // pause after the operation
}

type Init struct {
	Key  string   `json:"key"`
	Kind string   `json:"kind"`
	Vals []string `json:"vals"`
	TTL  bool     `json:"ttl,omitempty"`
}

type Case struct {
	Flavor7 bool             `json:"flavor7"`
	Links   [2]bsync.LinkCfg `json:"links"` // [0]: site0 -> site1, [1]: site1 -> site0
	Init    [2][]Init        `json:"init"`
	Ops     []Op             `json:"ops"`
}

const markerLike = `{"version":"1","run_id":"9999999999999999999999999999999999999999","syncer_id":"x","unit_seq":7,"start_offset":10,"end_offset":20,"slot":0,"digest":"00000000000000ab"}`

var strKeys = []string{"s:a", "s:b", "s:c", "redis-gunyu-bisyncX:cp:marker:{a}", "redis-gunyu-bisync", "xredis-gunyu-bisync:cp:marker:{a}", "redis-gunyu-checkpoin", "marker:{slot-0}", "s:{t}d"}
var numKeys = []string{"n:a", "n:b"}
var listKeys = []string{"l:a", "l:b"}
var setKeys = []string{"e:a", "e:b"}
var hashKeys = []string{"h:a", "h:b", "latest:{slot-0}"}
var zsetKeys = []string{"z:a", "index:{slot-0}"}

func bb(ss ...string) []pbt.B {
	out := make([]pbt.B, len(ss))
	for i, s := range ss {
		out[i] = pbt.B(s)
	}
	return out
}

func anyKey(t *rapid.T) string {
	all := append(append(append(append(append(append([]string{}, strKeys...), numKeys...), listKeys...), setKeys...), hashKeys...), zsetKeys...)
	return rapid.SampledFrom(all).Draw(t, "anykey")
}

func genVal(t *rapid.T) string {
	switch rapid.IntRange(0, 7).Draw(t, "valkind") {
	case 0:
		return markerLike
	case 1:
		return "redis-gunyu-bisync:cp:marker:{slot-0}"
	case 2:
		return string([]byte{0, 255, '\r', '\n', '*'})
	default:
		return fmt.Sprintf("v%d", rapid.IntRange(0, 9999).Draw(t, "v"))
	}
}

func genCmd(t *rapid.T) []pbt.B {
	sk := func() string { return rapid.SampledFrom(strKeys).Draw(t, "skey") }
	switch rapid.IntRange(0, 24).Draw(t, "cmd") {
	case 0, 1, 2:
		return bb("SET", sk(), genVal(t))
	case 3:
		return bb("SET", sk(), genVal(t), "PX", "86400000")
	case 4:
		return bb("SET", sk(), genVal(t), "EX", "5000")
	case 5:
		return bb("SETNX", sk(), genVal(t))
	case 6:
		return bb("SETEX", sk(), "7000", genVal(t))
	case 7:
		return bb("APPEND", sk(), genVal(t))
	case 8:
		return bb("MSET", sk(), genVal(t), sk(), genVal(t))
	case 9:
		return bb("INCR", rapid.SampledFrom(numKeys).Draw(t, "nkey"))
	case 10:
		return bb("INCRBY", rapid.SampledFrom(numKeys).Draw(t, "nkey"), "5")
	case 11, 12:
		return bb("RPUSH", rapid.SampledFrom(listKeys).Draw(t, "lkey"), genVal(t))
	case 13:
		return bb("LPUSH", rapid.SampledFrom(listKeys).Draw(t, "lkey"), genVal(t))
	case 14:
		return bb("SADD", rapid.SampledFrom(setKeys).Draw(t, "ekey"), fmt.Sprintf("m%d", rapid.IntRange(0, 3).Draw(t, "m")))
	case 15:
		return bb("SREM", rapid.SampledFrom(setKeys).Draw(t, "ekey"), fmt.Sprintf("m%d", rapid.IntRange(0, 3).Draw(t, "m")))
	case 16, 17:
		return bb("HSET", rapid.SampledFrom(hashKeys).Draw(t, "hkey"), fmt.Sprintf("f%d", rapid.IntRange(0, 3).Draw(t, "f")), genVal(t))
	case 18:
		return bb("HDEL", rapid.SampledFrom(hashKeys).Draw(t, "hkey"), fmt.Sprintf("f%d", rapid.IntRange(0, 3).Draw(t, "f")))
	case 19:
		return bb("ZADD", rapid.SampledFrom(zsetKeys).Draw(t, "zkey"), fmt.Sprint(rapid.IntRange(0, 9).Draw(t, "score")), fmt.Sprintf("m%d", rapid.IntRange(0, 3).Draw(t, "m")))
	case 20:
		return bb("ZREM", rapid.SampledFrom(zsetKeys).Draw(t, "zkey"), fmt.Sprintf("m%d", rapid.IntRange(0, 3).Draw(t, "m")))
	case 21:
		return bb("EXPIRE", anyKey(t), "9000")
	case 22:
		return bb("PERSIST", anyKey(t))
	case 23:
		return bb("DEL", anyKey(t), anyKey(t))
	default:
		return bb("PEXPIRE", anyKey(t), "9000000")
	}
}

func genInit(t *rapid.T, label string) []Init {
	var out []Init
	seen := map[string]bool{}
	for i, n := 0, rapid.IntRange(0, 4).Draw(t, label+"n"); i < n; i++ {
		var it Init
		switch rapid.IntRange(0, 4).Draw(t, label+"kind") {
		case 0:
			it = Init{Key: rapid.SampledFrom(strKeys).Draw(t, "ik"), Kind: "string", Vals: []string{genVal(t)}}
		case 1:
			it = Init{Key: rapid.SampledFrom(listKeys).Draw(t, "ik"), Kind: "list", Vals: []string{genVal(t), "x"}}
		case 2:
			it = Init{Key: rapid.SampledFrom(hashKeys).Draw(t, "ik"), Kind: "hash", Vals: []string{"f0", genVal(t)}}
		case 3:
			it = Init{Key: rapid.SampledFrom(setKeys).Draw(t, "ik"), Kind: "set", Vals: []string{"m0", "m1"}}
		default:
			it = Init{Key: rapid.SampledFrom(numKeys).Draw(t, "ik"), Kind: "string", Vals: []string{"41"}}
		}
		it.TTL = rapid.IntRange(0, 3).Draw(t, "ittl") == 0
		if !seen[it.Key] {
			seen[it.Key] = true
			out = append(out, it)
		}
	}
	return out
}

func genCase(t *rapid.T) Case {
	c := Case{Flavor7: rapid.Bool().Draw(t, "flavor7")}
	for i := range c.Links {
		c.Links[i].Mode = rapid.SampledFrom([]string{"sync", "pipeline", "parallel"}).Draw(t, "mode")
		c.Links[i].Batch = uint(rapid.SampledFrom([]int{1, 4, 16}).Draw(t, "batch"))
		c.Links[i].InputName = fmt.Sprintf("site%d", i)
		c.Links[i].NoRestore = rapid.IntRange(0, 2).Draw(t, "noRestore") == 0
	}
	c.Init[0], c.Init[1] = genInit(t, "a"), genInit(t, "b")
	n := rapid.IntRange(2, 16).Draw(t, "nops")
	l0 := rapid.IntRange(0, n/2).Draw(t, "link0At")
	l1 := rapid.IntRange(0, n/2).Draw(t, "link1At")
	for i := 0; i <= n; i++ {
		if i == l0 {
			c.Ops = append(c.Ops, Op{Kind: "link", Site: 0, PauseMs: rapid.SampledFrom([]int{0, 0, 5, 40}).Draw(t, "lpause")})
		}
		if i == l1 {
			c.Ops = append(c.Ops, Op{Kind: "link", Site: 1, PauseMs: rapid.SampledFrom([]int{0, 0, 5, 40}).Draw(t, "lpause")})
		}
		if i == n {
			break
		}
		op := Op{Kind: "client", Site: rapid.IntRange(0, 1).Draw(t, "site"), Txn: rapid.IntRange(0, 2).Draw(t, "txn") == 0}
		nc := 1
		if op.Txn {
			nc = rapid.IntRange(1, 4).Draw(t, "ncmds")
			if rapid.IntRange(0, 3).Draw(t, "fakeMarker") == 0 {
				// a client transaction shaped like a mirrored one, outside the reserved namespace
				op.Cmds = append(op.Cmds, bb("SET", rapid.SampledFrom(strKeys[3:8]).Draw(t, "mk"), markerLike, "PX", "86400000"))
			}
		}
		for j := 0; j < nc; j++ {
			op.Cmds = append(op.Cmds, genCmd(t))
		}
		op.PauseMs = rapid.SampledFrom([]int{0, 0, 0, 1, 3, 115}).Draw(t, "pause")
		c.Ops = append(c.Ops, op)
	}
	return c
}

// ---------------------------------------------------------------------------------------------------------------------

type site struct {
	srv  *fake.Server
	tgt  *bsync.Target
	id   string
	cli  net.Conn
	rd   *bufio.Reader
	snap int64 // offset at which the link that reads this site took its snapshot (-1: not yet)
}

func (s *site) do(args ...[]byte) (string, error) {
	if _, err := s.cli.Write(resp.Cmd(args...)); err != nil {
		return "", err
	}
	s.cli.SetReadDeadline(time.Now().Add(10 * time.Second))
	return resp.ReadReply(s.rd)
}

type unit struct {
	End    int64
	Origin string
	Conn   int
	Cmds   [][][]byte
	Txn    bool
}

// units groups a site's propagation stream into replay units (SELECTs dropped).
func units(cmds []fake.PropCmd) []unit {
	var out []unit
	var cur *unit
	for _, c := range cmds {
		name := strings.ToUpper(string(c.Args[0]))
		switch {
		case name == "SELECT":
			continue
		case name == "MULTI":
			cur = &unit{Origin: c.Origin, Conn: c.Conn, Txn: true}
		case name == "EXEC" && cur != nil:
			cur.End = c.End
			out = append(out, *cur)
			cur = nil
		case cur != nil:
			cur.Cmds = append(cur.Cmds, c.Args)
		default:
			out = append(out, unit{End: c.End, Origin: c.Origin, Conn: c.Conn, Cmds: [][][]byte{c.Args}})
		}
	}
	return out
}

func inNamespace(k []byte) bool {
	return bytes.HasPrefix(k, []byte("redis-gunyu-bisync:")) || bytes.HasPrefix(k, []byte("redis-gunyu-checkpoint"))
}

func showCmds(cs [][][]byte) []string {
	var out []string
	for _, c := range cs {
		s := ""
		for i, a := range c {
			if i > 0 {
				s += " "
			}
			if len(a) > 60 {
				s += fmt.Sprintf("%q...", a[:60])
			} else {
				s += fmt.Sprintf("%q", a)
			}
		}
		out = append(out, s)
	}
	return out
}

func sameUnit(block [][][]byte, u [][][]byte) bool {
	if len(block) != len(u) {
		return false
	}
	for i := range u {
		if len(block[i]) != len(u[i]) || !strings.EqualFold(string(block[i][0]), string(u[i][0])) {
			return false
		}
		for j := 1; j < len(u[i]); j++ {
			if !bytes.Equal(block[i][j], u[i][j]) {
				return false
			}
		}
	}
	return true
}

// snapshotItems turns a keyspace image into snapshot items (db 0, plain encodings).
func snapshotItems(ks *fake.Keyspace) []rdbgen.Item {
	var items []rdbgen.Item
	keys := ks.Keys(0)
	sort.Strings(keys)
	for _, k := range keys {
		e := ks.DBs[0][k]
		it := rdbgen.Item{Key: pbt.B(k), ExpireAt: e.ExpireAt}
		switch e.V.Type {
		case "string":
			it.Kind, it.Enc, it.Str = "string", rdbgen.TString, pbt.B(e.V.Str)
		case "list":
			it.Kind, it.Enc = "list", rdbgen.TList
			for _, x := range e.V.List {
				it.Elems = append(it.Elems, pbt.B(x))
			}
		case "set":
			it.Kind, it.Enc = "set", rdbgen.TSet
			var ms []string
			for m := range e.V.Set {
				ms = append(ms, m)
			}
			sort.Strings(ms)
			for _, m := range ms {
				it.Elems = append(it.Elems, pbt.B(m))
			}
		case "zset":
			it.Kind, it.Enc = "zset", rdbgen.TZSet2
			var ms []string
			for m := range e.V.ZSet {
				ms = append(ms, m)
			}
			sort.Strings(ms)
			for _, m := range ms {
				it.Z = append(it.Z, rdbgen.ZMember{Member: pbt.B(m), Score: rdbgen.F(e.V.ZSet[m])})
			}
		case "hash":
			it.Kind, it.Enc = "hash", rdbgen.THash
			var fs []string
			for f := range e.V.Hash {
				fs = append(fs, f)
			}
			sort.Strings(fs)
			for _, f := range fs {
				it.H = append(it.H, rdbgen.HField{F: pbt.B(f), V: pbt.B(e.V.Hash[f])})
			}
		default:
			continue
		}
		items = append(items, it)
	}
	return items
}

type failure struct{ sig, msg string }

type linkRun struct {
	src, dst int
	snapKeys map[string]bool
	snapOff  int64
	cancel   context.CancelFunc
	done     chan error
	phase    string
	mu       sync.Mutex
	err      error
}

func run(c Case) (fs []failure, inconc string, cls map[string]bool, hist any) {
	gen.QuietLogs()
	cls = map[string]bool{}
	pbt.For(prop).Eval(1)
	var sites [2]*site
	for i := range sites {
		srv := fake.NewServer()
		srv.RunID = strings.Repeat(fmt.Sprint(3+i), 40)
		srv.Prop = fake.NewPropagation(int64(1000+4000*i), c.Flavor7)
		sites[i] = &site{srv: srv, tgt: &bsync.Target{Std: srv}, id: srv.RunID, snap: -1}
		defer srv.Close()
		for _, it := range c.Init[i] {
			v := &fake.Value{Type: it.Kind}
			switch it.Kind {
			case "string":
				v.Str = []byte(it.Vals[0])
			case "list":
				for _, x := range it.Vals {
					v.List = append(v.List, []byte(x))
				}
			case "hash":
				v.Hash = map[string][]byte{it.Vals[0]: []byte(it.Vals[1])}
			case "set":
				v.Set = map[string]bool{}
				for _, x := range it.Vals {
					v.Set[x] = true
				}
			}
			e := &fake.Entry{V: v}
			if it.TTL {
				e.ExpireAt = time.Now().UnixNano()/1e6 + 50_000_000
			}
			srv.KS.DBs[0][it.Key] = e
		}
		conn, err := net.Dial("tcp", srv.Addr())
		if err != nil {
			return nil, "dial: " + err.Error(), cls, nil
		}
		defer conn.Close()
		sites[i].cli, sites[i].rd = conn, bufio.NewReader(conn)
		if r, err := sites[i].do([]byte("CLIENT"), []byte("SETNAME"), []byte("client")); err != nil || r != "+OK" {
			return nil, fmt.Sprintf("client setname: %v %v", r, err), cls, nil
		}
	}
	var links [2]*linkRun
	var clientLog []string
	stopped := false
	stopAll := func() {
		if stopped {
			return
		}
		stopped = true
		for _, l := range links {
			if l != nil {
				l.cancel()
			}
		}
		for _, l := range links {
			if l != nil {
				select {
				case <-l.done:
				case <-time.After(20 * time.Second):
				}
			}
		}
	}
	defer stopAll()

	startLink := func(src int) {
		dst := 1 - src
		s, d := sites[src], sites[dst]
		// the snapshot: image of the live keyspace and the stream offset it corresponds to, taken atomically
		s.srv.Lock()
		ks := s.srv.KS.Clone()
		off := s.srv.Prop.End()
		s.srv.Unlock()
		items := snapshotItems(ks)
		data, metas := rdbgen.Build(rdbgen.File{Version: 9, Checksum: true, Items: items})
		d.srv.Lock()
		fullsync.Register(d.srv, metas)
		d.srv.Unlock()
		l := &linkRun{src: src, dst: dst, snapKeys: map[string]bool{}, snapOff: off, done: make(chan error, 1), phase: "start"}
		for _, it := range items {
			l.snapKeys[string(it.Key)] = true
		}
		s.snap = off
		ctx, cancel := context.WithCancel(context.Background())
		l.cancel = cancel
		links[src] = l
		lc := c.Links[src]
		go func() {
			err := func() error {
				ids := []string{s.id, ""}
				ro, _, err := bsync.StartUp(d.tgt, lc, ids)
				if err != nil {
					return fmt.Errorf("start-up: %w", err)
				}
				sp, err := ro.StartPoint(ctx, ids)
				if err != nil {
					return fmt.Errorf("start point: %w", err)
				}
				if !sp.IsInitial() {
					return fmt.Errorf("fresh link has a start point %+v", sp)
				}
				l.mu.Lock()
				l.phase = "snapshot"
				l.mu.Unlock()
				if err := ro.Send(ctx, &gen.Reader{R: bufio.NewReader(bytes.NewReader(data)), LeftV: off, RunID: s.id, Aof: false, SizeV: int64(len(data))}); err != nil {
					return fmt.Errorf("snapshot replay: %w", err)
				}
				l.mu.Lock()
				l.phase = "stream"
				l.mu.Unlock()
				pr, pw := io.Pipe()
				go func() {
					pos := off
					for ctx.Err() == nil {
						b := s.srv.Prop.Bytes(pos)
						if len(b) == 0 {
							time.Sleep(300 * time.Microsecond)
							continue
						}
						if _, err := pw.Write(b); err != nil {
							return
						}
						pos += int64(len(b))
					}
					pw.Close()
				}()
				err = ro.Send(ctx, &gen.Reader{R: bufio.NewReaderSize(pr, 4096), LeftV: off, RunID: s.id, Aof: true, SizeV: -1})
				pr.Close()
				return err
			}()
			l.mu.Lock()
			l.err = err
			l.mu.Unlock()
			l.done <- err
		}()
	}

	for oi, op := range c.Ops {
		switch op.Kind {
		case "link":
			startLink(op.Site)
		case "client":
			s := sites[op.Site]
			var replies []string
			if op.Txn {
				r, err := s.do([]byte("MULTI"))
				if err != nil {
					return nil, "client: " + err.Error(), cls, nil
				}
				replies = append(replies, r)
			}
			for _, cm := range op.Cmds {
				r, err := s.do(pbt.Raw(cm)...)
				if err != nil {
					return nil, "client: " + err.Error(), cls, nil
				}
				replies = append(replies, r)
			}
			if op.Txn {
				r, err := s.do([]byte("EXEC"))
				if err != nil {
					return nil, "client: " + err.Error(), cls, nil
				}
				replies = append(replies, r)
			}
			clientLog = append(clientLog, fmt.Sprintf("op %d at site %d: %v", oi, op.Site, replies))
		}
		if op.PauseMs > 0 {
			time.Sleep(time.Duration(op.PauseMs) * time.Millisecond)
		}
	}

	// ---- quiescence: both streams stop growing (the frontier is flushed every 100 ms, which itself is bookkeeping traffic)
	type obs struct {
		e0, e1 int64
		r0, r1 int
	}
	look := func() obs {
		return obs{sites[0].srv.Prop.End(), sites[1].srv.Prop.End(), sites[0].srv.ReqCount(), sites[1].srv.ReqCount()}
	}
	quiesceStart := time.Now()
	last, lastChange := look(), time.Now()
	quiet := false
	linkDied := ""
	for time.Since(quiesceStart) < 20*time.Second {
		time.Sleep(5 * time.Millisecond)
		now := look()
		if now != last {
			last, lastChange = now, time.Now()
		}
		allStreaming := true
		for _, l := range links {
			if l == nil {
				continue
			}
			l.mu.Lock()
			ph, err := l.phase, l.err
			l.mu.Unlock()
			select {
			case e := <-l.done:
				l.done <- e
				linkDied = fmt.Sprintf("link %d->%d ended by itself: %v", l.src, l.dst, err)
			default:
			}
			if ph != "stream" {
				allStreaming = false
			}
		}
		if linkDied != "" {
			break
		}
		if allStreaming && time.Since(lastChange) > 350*time.Millisecond {
			quiet = true
			break
		}
	}
	settle := time.Since(quiesceStart)
	stopAll()
	for _, s := range sites {
		s.srv.WaitIdle(time.Second)
	}

	// ---- history
	var streams [2][]unit
	var reqLogs [2][]string
	for i, s := range sites {
		streams[i] = units(s.srv.Prop.Commands())
		_, rq := s.srv.SnapshotLog()
		for _, r := range rq {
			switch r.Cmd {
			case "ping", "info", "select", "client", "exists", "hget":
				continue
			}
			reqLogs[i] = append(reqLogs[i], fmt.Sprintf("%05d c%d %s %v -> %s", r.Seq, r.Conn, r.Cmd, r.ArgsS, r.Reply))
		}
		if len(reqLogs[i]) > 250 {
			reqLogs[i] = reqLogs[i][len(reqLogs[i])-250:]
		}
	}
	var streamDump [2][]string
	for i := range streams {
		for _, u := range streams[i] {
			o := u.Origin
			if o == "" {
				o = "tool"
			}
			streamDump[i] = append(streamDump[i], fmt.Sprintf("end %d by %s(c%d) txn=%v %v", u.End, o, u.Conn, u.Txn, showCmds(u.Cmds)))
		}
	}
	hist = map[string]any{"clients": clientLog, "stream_site0": streamDump[0], "stream_site1": streamDump[1], "requests_site0": reqLogs[0], "requests_site1": reqLogs[1], "settle_ms": settle.Milliseconds(), "link_died": linkDied}

	if linkDied != "" {
		// not what this property is about (a link that stops is C14's / the operator's business) unless it stopped on its own echo; report it as such
		return []failure{{"link-stops", linkDied}}, "", cls, hist
	}
	if !quiet {
		fs = append(fs, failure{"exchange-does-not-quiesce", fmt.Sprintf("20 s after the last client write the two sites are still exchanging traffic (stream ends %d / %d)", last.e0, last.e1)})
	}
	for li, l := range links {
		if l == nil {
			continue
		}
		src, dst := sites[l.src], sites[l.dst]
		byEnd := map[int64]*unit{}
		for i := range streams[l.src] {
			u := &streams[l.src][i]
			byEnd[u.End] = u
		}
		applied := map[int64]int{}
		snapSeen := map[string]int{}
		log, _ := dst.srv.SnapshotLog()
		for _, b := range bsync.Blocks(l.dst, log) {
			if b.Marker == nil {
				continue // client writes at the destination and stand-alone bookkeeping
			}
			if b.Marker.RunID != src.id {
				continue
			}
			// bookkeeping commands inside a link's transaction other than its own marker / recovery record / index entry were taken from the source
			for _, ctl := range b.ControlRaw {
				phase := ""
				if b.Marker.RecordType == "rdb" {
					phase = ":snapshot"
				}
				fs = append(fs, failure{"bookkeeping-forwarded" + phase, fmt.Sprintf("link %d->%d carries the bookkeeping command %.200q of site %d into site %d", l.src, l.dst, ctl, l.src, l.dst)})
			}
			if b.Marker.RecordType == "rdb" {
				cls["snapshot-unit"] = true
				for _, cm := range b.Business {
					if len(cm) > 1 && inNamespace(cm[1]) {
						fs = append(fs, failure{"bookkeeping-forwarded:snapshot", fmt.Sprintf("link %d->%d replays the bookkeeping key %q of site %d's snapshot into site %d: %v", l.src, l.dst, cm[1], l.src, l.dst, b.BusinessS)})
					}
				}
				if len(b.Business) > 0 && len(b.Business[0]) > 1 {
					snapSeen[string(b.Business[len(b.Business)-1][1])]++
				}
				continue
			}
			u := byEnd[b.Marker.EndOffset]
			if u == nil {
				fs = append(fs, failure{"unit-boundary-unknown", fmt.Sprintf("link %d->%d commits a unit ending at %d, where no unit of site %d's stream ends: %v", l.src, l.dst, b.Marker.EndOffset, l.src, b.BusinessS)})
				continue
			}
			applied[u.End]++
			if u.Origin != "client" {
				sig := "own-write-echoed"
				for _, cm := range b.Business {
					if len(cm) > 1 && inNamespace(cm[1]) {
						sig = "bookkeeping-forwarded"
					}
				}
				fs = append(fs, failure{sig, fmt.Sprintf("link %d->%d sent back what the tool itself wrote to site %d (stream unit ending at %d, connection c%d): %v", l.src, l.dst, l.src, u.End, u.Conn, b.BusinessS)})
				continue
			}
			if !sameUnit(b.Business, u.Cmds) {
				fs = append(fs, failure{"foreign-write-altered", fmt.Sprintf("link %d->%d applied %v for the client's %v", l.src, l.dst, b.BusinessS, showCmds(u.Cmds))})
			}
		}
		for _, u := range streams[l.src] {
			if u.End <= l.snapOff || u.Origin != "client" {
				continue
			}
			cls["foreign-unit"] = true
			if u.Txn {
				cls["foreign-transaction"] = true
			}
			switch n := applied[u.End]; {
			case n == 0:
				fs = append(fs, failure{"foreign-write-swallowed", fmt.Sprintf("link %d->%d never applied the client's write at site %d (stream unit ending at %d): %v", l.src, l.dst, l.src, u.End, showCmds(u.Cmds))})
			case n > 1:
				fs = append(fs, failure{"foreign-write-applied-twice", fmt.Sprintf("link %d->%d applied the client's write at site %d %d times: %v", l.src, l.dst, l.src, n, showCmds(u.Cmds))})
			}
		}
		for _, u := range streams[l.src] {
			if u.End > l.snapOff && u.Origin != "client" {
				cls["tool-written-unit-in-source-stream"] = true
				if u.Txn {
					cls["mirrored-transaction-in-source-stream"] = true
				} else {
					cls["bare-bookkeeping-in-source-stream"] = true
				}
			}
		}
		for k := range l.snapKeys {
			if inNamespace([]byte(k)) {
				cls["bookkeeping-in-snapshot"] = true
				if strings.HasPrefix(k, "redis-gunyu-bisync:") {
					cls["marker-or-journal-in-snapshot"] = true
				}
				continue
			}
			if snapSeen[k] != 1 {
				fs = append(fs, failure{"snapshot-key-not-applied-once", fmt.Sprintf("link %d->%d applied snapshot key %q %d times", l.src, l.dst, k, snapSeen[k])})
			}
		}
		_ = li
	}
	return fs, "", cls, hist
}

func check(t pbt.TB, c Case) {
	st := pbt.For(prop)
	st.Case()
	cj := pbt.JSON(c)
	fs, inconc, cls, hist := run(c)
	if inconc != "" && len(fs) == 0 {
		st.Inconc(inconc)
		return
	}
	for k, v := range cls {
		st.ClassIf(v, k)
	}
	st.ClassIf(c.Flavor7, "flavor7")
	for _, l := range c.Links {
		st.Class("mode:" + l.Mode)
	}
	if cls["foreign-unit"] && cls["mirrored-transaction-in-source-stream"] {
		st.NonTrivial(cj)
	} else {
		st.Sample(cj)
	}
	for _, f := range fs {
		st.Fail(t, f.sig, f.msg, cj, hist)
	}
}

func TestC13(t *testing.T) {
	rapid.Check(t, func(t *rapid.T) { check(t, genCase(t)) })
}

func TestC13Replay(t *testing.T) {
	if os.Getenv("VERIF_REPLAY") == "" {
		t.Skip("no VERIF_REPLAY")
	}
	v, err := pbt.LoadReplay()
	if err != nil {
		t.Fatal(err)
	}
	var c Case
	if err := json.Unmarshal(v.Case, &c); err != nil {
		t.Fatal(err)
	}
	for i := 0; i < 3; i++ {
		check(t, c)
	}
}
