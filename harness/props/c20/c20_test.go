// C20 — pre-existing target keys are handled as the configured policy says, on any path.
package c20

import (
	"context"
	"encoding/json"
	"fmt"
	"os"
	"strings"
	"testing"
	"time"

	"pgregory.net/rapid"

	"verifharness/fake"
	"verifharness/fullsync"
	"verifharness/gen"
	"verifharness/pbt"
	"verifharness/ref/rdbgen"
)

const prop = "C20"

func TestMain(m *testing.M) { pbt.Main(m) }

// Pre is one key that exists on the target before the full sync.
type Pre struct {
	Item  int    `json:"item"` // index of the snapshot item whose (db,key) it occupies; -1 = a key outside the snapshot
	Kind  string `json:"kind"` // type of the existing value
	TTLms int64  `json:"ttlMs"`
	Key   pbt.B  `json:"key,omitempty"`
	DB    int    `json:"db,omitempty"`
}

type Case struct {
	File rdbgen.File  `json:"file"`
	Cfg  fullsync.Cfg `json:"cfg"`
	Pre  []Pre        `json:"pre"`
}

func preValue(kind string, salt int) *fake.Value {
	tag := []byte(fmt.Sprintf("old-%d", salt))
	switch kind {
	case "string":
		return &fake.Value{Type: "string", Str: tag}
	case "list":
		return &fake.Value{Type: "list", List: [][]byte{tag, []byte("old2")}}
	case "set":
		return &fake.Value{Type: "set", Set: map[string]bool{string(tag): true}}
	case "zset":
		return &fake.Value{Type: "zset", ZSet: map[string]float64{string(tag): 1.5}}
	case "hash":
		return &fake.Value{Type: "hash", Hash: map[string][]byte{"oldfield": tag}}
	default:
		return &fake.Value{Type: "stream", Stream: &fake.Stream{Entries: []fake.StreamEntry{{ID: fake.StreamID{Ms: 1, Seq: 1}, Fields: [][]byte{[]byte("o"), tag}}}, LastID: fake.StreamID{Ms: 1, Seq: 1}, EntriesAdded: 1}}
	}
}

func genCase(t *rapid.T) Case {
	o := gen.DatasetOpts{NowMs: time.Now().UnixNano() / 1e6, Big: rapid.IntRange(0, 4).Draw(t, "big") == 0, MaxKeys: 8}
	c := Case{File: gen.GenFile(t, o), Cfg: fullsync.GenCfg(t)}
	renamedSplit := rapid.IntRange(0, 7).Draw(t, "renamedSplitValue") == 0
	if renamedSplit {
		// a value that is renamed on the way (replaceHashTag), large enough to be split into several parts, over a pre-existing key:
		// the policy decision taken for the first part must hold for every part, under the target's name
		c.Cfg.ReplaceHashTag = true
		c.Cfg.ChunkBytes = rapid.SampledFrom([]int{48, 64}).Draw(t, "rsChunk")
		it := rdbgen.Item{DB: 0, Key: []byte(rapid.SampledFrom([]string{"big{tag}", "{u}h", "rs{b}{c}", "x}y{z}"}).Draw(t, "rsKey")), Kind: "hash", Enc: rdbgen.THash}
		for i, n := 0, rapid.IntRange(8, 20).Draw(t, "rsFields"); i < n; i++ {
			it.H = append(it.H, rdbgen.HField{F: []byte(fmt.Sprintf("field-%02d", i)), V: []byte(fmt.Sprintf("value-%02d-%s", i, strings.Repeat("v", i%7)))})
		}
		if rapid.Bool().Draw(t, "rsExpire") {
			it.ExpireAt = o.NowMs + 7200_000
		}
		c.File.Items = append([]rdbgen.Item{it}, c.File.Items...)
	}
	c.Cfg.Normalize(c.File.Items)
	c.Cfg.KeyExists = rapid.SampledFrom([]string{"replace", "ignore", "error"}).Draw(t, "policy")
	if c.Cfg.TargetVer < "5" {
		c.Cfg.TargetVer = "6.2.0"
	}
	for i, it := range c.File.Items {
		if rapid.IntRange(0, 1).Draw(t, "preexists") == 0 || (renamedSplit && i == 0) {
			kind := it.Kind
			if rapid.Bool().Draw(t, "otherType") {
				kind = rapid.SampledFrom([]string{"string", "list", "set", "zset", "hash", "stream"}).Draw(t, "preKind")
			}
			c.Pre = append(c.Pre, Pre{Item: i, Kind: kind, TTLms: rapid.SampledFrom([]int64{0, 0, 7200_000}).Draw(t, "preTTL")})
		}
	}
	if rapid.Bool().Draw(t, "unrelated") {
		c.Pre = append(c.Pre, Pre{Item: -1, Kind: "string", Key: []byte("unrelated:key"), DB: rapid.IntRange(0, 3).Draw(t, "udb")})
	}
	return c
}

type failure struct{ sig, msg string }

func run(c Case) (fails []failure, inconc string, facts map[string]bool, hist any) {
	st := pbt.For(prop)
	st.Eval(1)
	facts = map[string]bool{}
	data, metas := rdbgen.Build(c.File)
	srv := fake.NewServer()
	defer srv.Close()
	fullsync.Register(srv, metas)
	fullsync.RefuseRestores(c.Cfg, srv, metas)
	// metas are in file order (grouped by db); index them by (db,key)
	metaOf := map[string]rdbgen.Meta{}
	for _, m := range metas {
		metaOf[fmt.Sprintf("%d/%s", m.DB, m.Key)] = m
	}
	now := time.Now().UnixNano() / 1e6
	type preKey struct {
		db  int
		key string
		val *fake.Value
		exp int64
		it  int
	}
	var pres []preKey
	srv.Lock()
	for i, p := range c.Pre {
		db, key := p.DB, []byte(p.Key)
		if p.Item >= 0 {
			it := c.File.Items[p.Item]
			db, key = c.Cfg.MapDB(it.DB), c.Cfg.TargetKey([]byte(it.Key))
		}
		v := preValue(p.Kind, i)
		exp := int64(0)
		if p.TTLms > 0 {
			exp = now + p.TTLms
		}
		srv.KS.DBs[db][string(key)] = &fake.Entry{V: v, ExpireAt: exp}
		pres = append(pres, preKey{db, string(key), v.Clone(), exp, p.Item})
	}
	srv.Unlock()
	ctx, cancel := context.WithTimeout(context.Background(), 60*time.Second)
	defer cancel()
	err, _ := fullsync.Run(c.Cfg, srv, data, ctx, nil)
	_, reqs := srv.SnapshotLog()
	tail := reqs
	if len(tail) > 80 {
		tail = tail[len(tail)-80:]
	}
	hist = map[string]any{"send_err": fmt.Sprint(err), "last_requests": tail}
	if err != nil && c.Cfg.BadFormatEvery > 0 && strings.Contains(err.Error(), "Bad data format") {
		// the target refused a payload and the tool stopped (the bidirectional path has no native-command fallback): nothing to judge
		facts["stopped-on-refused-payload"] = true
		return nil, "", facts, hist
	}
	facts["target-refuses-some-payloads"] = c.Cfg.BadFormatEvery > 0
	if ctx.Err() != nil {
		return nil, "replay did not finish within 60 s", facts, hist
	}
	ks := srv.SnapshotKS()
	snapshotPre := 0
	for _, p := range pres {
		if p.it >= 0 {
			snapshotPre++
		}
	}
	unchanged := func(p preKey) string {
		e := ks.DBs[p.db][p.key]
		if e == nil {
			return "key was deleted"
		}
		if d := fullsync.CompareValue(e.V, p.val, 0, true); d != "" {
			return d
		}
		if e.ExpireAt != p.exp {
			return fmt.Sprintf("expiry changed from %d to %d", p.exp, e.ExpireAt)
		}
		return ""
	}
	pathOf := func(p preKey) string {
		if p.it < 0 {
			return "unrelated"
		}
		it := c.File.Items[p.it]
		m := metaOf[fmt.Sprintf("%d/%s", it.DB, it.Key)]
		if !c.Cfg.Restore || len(m.Ser)+11 > c.Cfg.MaxBulk {
			if it.Kind == "hash" && it.Enc == rdbgen.THash && c.Cfg.ChunkBytes > 0 && len(m.Ser) > c.Cfg.ChunkBytes {
				return "split"
			}
			return "expansion"
		}
		if it.Kind == "hash" && it.Enc == rdbgen.THash && c.Cfg.ChunkBytes > 0 && len(m.Ser) > c.Cfg.ChunkBytes {
			return "split"
		}
		return "restore"
	}
	switch c.Cfg.KeyExists {
	case "replace":
		if err != nil {
			fails = append(fails, failure{"replace-replay-failed", fmt.Sprintf("policy replace: replay failed: %v", err)})
			break
		}
		skip := map[string]bool{}
		for _, p := range pres {
			if p.it < 0 {
				skip[fmt.Sprintf("%d/%s", p.db, p.key)] = true
				if d := unchanged(p); d != "" {
					fails = append(fails, failure{"unrelated-key-modified", fmt.Sprintf("key %q is not in the snapshot but was modified: %s", p.key, d)})
				}
			}
		}
		for _, m := range fullsync.CompareKeyspace(c.Cfg, ks, metas, c.File.Items, time.Now().UnixNano()/1e6, skip) {
			if m.Sig == "extra-key" {
				continue
			}
			fails = append(fails, failure{"replace:" + m.Sig, "policy replace: " + m.Msg})
		}
	case "ignore":
		if err != nil {
			fails = append(fails, failure{"ignore-replay-failed", fmt.Sprintf("policy ignore: replay failed: %v", err)})
			break
		}
		skip := map[string]bool{}
		for _, p := range pres {
			skip[fmt.Sprintf("%d/%s", p.db, p.key)] = true
			if d := unchanged(p); d != "" {
				fails = append(fails, failure{"ignore-modified-existing-key:" + pathOf(p), fmt.Sprintf("policy ignore: existing key %q (db %d, existing type %s, snapshot path %s) was modified: %s", p.key, p.db, p.val.Type, pathOf(p), d)})
			}
		}
		for _, m := range fullsync.CompareKeyspace(c.Cfg, ks, metas, c.File.Items, time.Now().UnixNano()/1e6, skip) {
			if m.Sig == "extra-key" {
				continue
			}
			fails = append(fails, failure{"ignore:" + m.Sig, "policy ignore, key that did not exist before: " + m.Msg})
		}
	case "error":
		for _, p := range pres {
			if d := unchanged(p); d != "" {
				fails = append(fails, failure{"error-policy-modified-existing-key:" + pathOf(p), fmt.Sprintf("policy error: existing key %q (db %d, snapshot path %s) was modified: %s (replay returned %v)", p.key, p.db, pathOf(p), d, err)})
			}
		}
		if snapshotPre > 0 && err == nil {
			fails = append(fails, failure{"error-policy-no-error", fmt.Sprintf("policy error: %d snapshot keys already existed on the target but the replay reported success", snapshotPre)})
		}
		if snapshotPre == 0 && err != nil {
			fails = append(fails, failure{"error-policy-spurious-error", fmt.Sprintf("policy error: no snapshot key existed on the target but the replay failed: %v", err)})
		}
	}
	for _, p := range pres {
		if p.it >= 0 {
			facts["pre-existing:"+pathOf(p)] = true
			if c.File.Items[p.it].Kind != p.val.Type {
				facts["pre-existing-other-type:"+pathOf(p)] = true
			}
		}
	}
	facts["policy:"+c.Cfg.KeyExists] = true
	return fails, "", facts, hist
}

func check(t pbt.TB, c Case) {
	st := pbt.For(prop)
	st.Case()
	cj := pbt.JSON(c)
	fails, inconc, facts, hist := run(c)
	if inconc != "" {
		st.Inconc(inconc)
		return
	}
	for k := range facts {
		st.Class(k)
	}
	if facts["pre-existing-other-type:expansion"] || facts["pre-existing:split"] {
		st.NonTrivial(cj)
	} else {
		st.Sample(cj)
	}
	for _, f := range fails {
		st.Fail(t, f.sig, f.msg, cj, hist)
	}
}

func TestC20(t *testing.T) {
	rapid.Check(t, func(t *rapid.T) { check(t, genCase(t)) })
}

func TestC20Replay(t *testing.T) {
	if os.Getenv("VERIF_REPLAY") == "" {
		t.Skip("no VERIF_REPLAY")
	}
	v, err := pbt.LoadReplay()
	if err != nil {
		t.Fatal(err)
	}
	var c Case
	if err := json.Unmarshal(v.Case, &c); err != nil {
		t.Fatal(err)
	}
	check(t, c)
}
