// C08 — after an unclean stop the disk cache serves only bytes it truly holds.
//
// A generated write sequence runs on a real StoreChannel; the directory is
// copied after every step (frozen image), and torn images that an
// ordered-write crash can produce are synthesised from those copies. Every
// image is opened by a fresh StoreChannel and judged.
package c08

import (
	"encoding/json"
	"fmt"
	"os"
	"path/filepath"
	"sort"
	"strconv"
	"strings"
	"testing"
	"time"

	"pgregory.net/rapid"

	"github.com/mgtv-tech/redis-GunYu/syncer"

	"verifharness/cache"
	"verifharness/pbt"
)

const prop = "C08"

func TestMain(m *testing.M) { pbt.Main(m) }

type Op struct {
	Op string `json:"op"` // rdb | rdbpartial | append | gc
	N  int64  `json:"n,omitempty"`
}

type Case struct {
	LogSize   int64 `json:"logSize"`
	MaxSize   int64 `json:"maxSize"`
	VerifyCrc bool  `json:"verifyCrc"`
	Start     int64 `json:"start"`
	Ops       []Op  `json:"ops"`
}

// Tear describes how an image is derived from the frozen copy after step Step.
type Tear struct {
	Step  int    `json:"step"`
	Kind  string `json:"kind"` // none | truncate-newest | drop-newest | rdb-tmp-truncate | rdb-tmp-complete | gc-partial | alter-closed
	Arg   int64  `json:"arg,omitempty"`
	Arg2  int64  `json:"arg2,omitempty"`
	Label string `json:"label,omitempty"`
}

type FCase struct {
	Case
	Tear Tear `json:"tear"`
}

func genCase(t *rapid.T) Case {
	c := Case{}
	c.LogSize = rapid.SampledFrom([]int64{32, 48, 64, 128}).Draw(t, "logSize")
	c.MaxSize = rapid.SampledFrom([]int64{-1, c.LogSize * 3, c.LogSize * 4}).Draw(t, "maxSize")
	c.VerifyCrc = rapid.Bool().Draw(t, "verifyCrc")
	c.Start = rapid.Int64Range(1, 1<<40).Draw(t, "start")
	if rapid.Bool().Draw(t, "beginRdb") {
		c.Ops = append(c.Ops, Op{Op: "rdb", N: rapid.Int64Range(9, 2*c.LogSize).Draw(t, "rdbSize")})
	}
	n := rapid.IntRange(2, 10).Draw(t, "nops")
	for i := 0; i < n; i++ {
		switch w := rapid.IntRange(0, 9).Draw(t, "kind"); {
		case w < 7:
			c.Ops = append(c.Ops, Op{Op: "append", N: rapid.OneOf(rapid.Int64Range(1, 12), rapid.Int64Range(1, 2*c.LogSize), rapid.Just(c.LogSize), rapid.Just(c.LogSize+1)).Draw(t, "n")})
		case w < 8:
			c.Ops = append(c.Ops, Op{Op: "gc"})
		case w < 9:
			// the log writer is restarted further ahead: a gap separates the older segments (and the snapshot) from the newest data
			c.Ops = append(c.Ops, Op{Op: "gap", N: rapid.Int64Range(1, 3*c.LogSize).Draw(t, "gap")})
		default:
			c.Ops = append(c.Ops, Op{Op: "rdbpartial", N: rapid.Int64Range(9, 2*c.LogSize).Draw(t, "rdbSize2")})
		}
	}
	return c
}

const runID = "4444444444444444444444444444444444444444"

func copyDir(src, dst string) error {
	return filepath.Walk(src, func(p string, info os.FileInfo, err error) error {
		if err != nil {
			return nil
		}
		rel, _ := filepath.Rel(src, p)
		if info.IsDir() {
			return os.MkdirAll(filepath.Join(dst, rel), 0o755)
		}
		b, err := os.ReadFile(p)
		if err != nil {
			return nil
		}
		return os.WriteFile(filepath.Join(dst, rel), b, 0o644)
	})
}

type seg struct {
	left int64
	data int64 // bytes of data in the file (file size - 16 byte header), < 0 if shorter than the header
	path string
}

// truth reads an image directory: log segments, complete snapshot (offset,size) if any.
func truth(dir string) (segs []seg, rdbOff, rdbSize int64) {
	rdbOff, rdbSize = -1, -1
	ents, _ := os.ReadDir(filepath.Join(dir, runID))
	for _, e := range ents {
		name := e.Name()
		info, err := e.Info()
		if err != nil {
			continue
		}
		if strings.HasSuffix(name, ".aof") {
			l, err := strconv.ParseInt(strings.TrimSuffix(name, ".aof"), 10, 64)
			if err == nil {
				segs = append(segs, seg{l, info.Size() - 16, filepath.Join(dir, runID, name)})
			}
		} else if strings.HasSuffix(name, ".rdb") {
			f := strings.Split(strings.TrimSuffix(name, ".rdb"), "_")
			if len(f) == 2 {
				o, _ := strconv.ParseInt(f[0], 10, 64)
				s, _ := strconv.ParseInt(f[1], 10, 64)
				if info.Size() == s {
					rdbOff, rdbSize = o, s
				}
			}
		}
	}
	sort.Slice(segs, func(a, b int) bool { return segs[a].left < segs[b].left })
	return
}

type failure struct{ sig, msg string }

// judge opens the image with a fresh channel and checks what it serves.
func judge(c Case, lin int, img string, altered bool, few bool) (fs []failure, facts map[string]bool) {
	facts = map[string]bool{}
	segs, rdbOff, rdbSize := truth(img)
	ch := cache.Open(true, img, c.LogSize, c.MaxSize)
	defer ch.Close()
	sp, err := ch.C.StartPoint([]string{runID})
	if err != nil {
		return nil, facts // refusing to open is not serving wrong bytes
	}
	l, r := ch.C.GetOffsetRange(runID)
	// bytes really held, per offset: the union of the segments' data
	held := func(x int64) bool {
		for _, s := range segs {
			if s.data > 0 && x >= s.left && x < s.left+s.data {
				return true
			}
		}
		return false
	}
	if sp.RunId == runID && sp.Offset >= 0 && r >= 0 {
		if sp.Offset != r {
			fs = append(fs, failure{"startpoint-differs-from-range", fmt.Sprintf("StartPoint offset %d, GetOffsetRange right %d", sp.Offset, r)})
		}
		if l >= 0 && r > l {
			// the reported range must be one interval of held bytes
			for x := l; x < r; x++ {
				if !held(x) {
					fs = append(fs, failure{"range-covers-missing-bytes", fmt.Sprintf("reported range [%d,%d] but offset %d is not in any segment of the image", l, r, x)})
					break
				}
			}
		}
		// newest data must not be lost in favour of older segments behind a gap
		var newestEnd int64 = -1
		for _, s := range segs {
			if s.data > 0 && s.left+s.data > newestEnd {
				newestEnd = s.left + s.data
			}
		}
		if newestEnd >= 0 && r > newestEnd {
			fs = append(fs, failure{"range-beyond-held-bytes", fmt.Sprintf("reported right %d, the image holds bytes only up to %d", r, newestEnd)})
		}
		// readers at a few offsets of the range
		try := map[int64]bool{l: true, r: true}
		if len(segs) > 0 {
			try[segs[len(segs)-1].left] = true
		}
		if !few {
			try[(l+r)/2], try[l+1], try[r-1] = true, true, true
			for _, s := range segs {
				try[s.left] = true
				try[s.left-1] = true
			}
		}
		for x := range try {
			if x < l-2 || x > r+2 {
				continue
			}
			if !ch.C.IsValidOffset(syncer.Offset{RunId: runID, Offset: x}) {
				continue
			}
			rd, err := ch.C.NewReader(syncer.Offset{RunId: runID, Offset: x})
			if err != nil {
				facts["valid-offset-refused"] = true
				continue
			}
			p := cache.StartPump(rd, lin, x)
			if p.Aof {
				want := int(r - x)
				if want < 0 {
					want = 0
				}
				p.WaitLen(want, 3*time.Second)
				time.Sleep(300 * time.Microsecond)
				got := p.Len()
				if d := p.Verify(); d != "" && !altered {
					fs = append(fs, failure{"served-wrong-bytes", d})
				} else if d != "" && altered {
					fs = append(fs, failure{"served-altered-bytes", "a closed segment was altered and verifyCrc is on, yet: " + d})
				}
				// it must not deliver bytes the image does not hold
				for i := 0; i < got; i++ {
					if !held(x + int64(i)) {
						fs = append(fs, failure{"served-bytes-not-held", fmt.Sprintf("reader at %d delivered %d bytes, offset %d is not in the image", x, got, x+int64(i))})
						break
					}
				}
				if got > 0 {
					facts["served-bytes"] = true
				}
			} else {
				if rdbOff < 0 {
					fs = append(fs, failure{"incomplete-snapshot-offered", fmt.Sprintf("a snapshot reader was handed out for offset %d but the image holds no complete snapshot", x)})
				} else {
					p.WaitLen(int(rdbSize), 3*time.Second)
					if d := p.Verify(); d != "" {
						fs = append(fs, failure{"snapshot-wrong-bytes", d})
					}
					facts["snapshot-served"] = true
				}
			}
			p.Close()
		}
	}
	if a, s := ch.C.GetRdb(runID); a != -1 {
		if rdbOff != a || rdbSize != s {
			fs = append(fs, failure{"incomplete-snapshot-offered", fmt.Sprintf("GetRdb reports (%d,%d) but the image holds no complete snapshot file of that geometry (complete: %d,%d)", a, s, rdbOff, rdbSize)})
		}
	}
	return fs, facts
}

// buildImages runs the sequence and returns the frozen copies (one per step).
func buildImages(c Case, base string) (imgs []string, lins []int, err string) {
	live := filepath.Join(base, "live")
	os.MkdirAll(live, 0o755)
	ch := cache.Open(true, live, c.LogSize, c.MaxSize)
	defer ch.Close()
	lin := 1
	if e := ch.C.SetRunId(runID); e != nil {
		return nil, nil, e.Error()
	}
	off := c.Start
	right := off
	started := false
	snap := func(i int) {
		d := filepath.Join(base, fmt.Sprintf("img%d", i))
		copyDir(live, d)
		imgs = append(imgs, d)
		lins = append(lins, lin)
	}
	for i, op := range c.Ops {
		switch op.Op {
		case "rdb":
			if e := ch.WriteRdb(lin, off, op.N, op.N); e != "" {
				return nil, nil, e
			}
			if e := ch.StartAof(off); e != "" {
				return nil, nil, e
			}
			started = true
		case "rdbpartial":
			// a new full sync that breaks in the middle: new lineage, the old data is reset first
			ch.StopWriter()
			lin++
			off = right + 1000
			right = off
			if e := ch.WriteRdb(lin, off, op.N, op.N/2); e != "" {
				return nil, nil, e
			}
			started = false
		case "append":
			if !started {
				if e := ch.StartAof(right); e != "" {
					return nil, nil, e
				}
				started = true
			}
			if e := ch.Append(lin, right, op.N, runID); e != "" {
				return nil, nil, e
			}
			right += op.N
		case "gc":
			ch.Gc()
		case "gap":
			ch.StopWriter()
			right += op.N
			if e := ch.StartAof(right); e != "" {
				return nil, nil, e
			}
			started = true
		}
		snap(i)
	}
	return imgs, lins, ""
}

func applyTear(img string, t Tear, dst string) bool {
	copyDir(img, dst)
	segs, _, _ := truth(dst)
	switch t.Kind {
	case "none":
		return true
	case "truncate-newest":
		if len(segs) == 0 {
			return false
		}
		return os.Truncate(segs[len(segs)-1].path, t.Arg) == nil
	case "drop-newest":
		if len(segs) == 0 {
			return false
		}
		return os.Remove(segs[len(segs)-1].path) == nil
	case "gc-partial":
		// the collector removes the snapshot first, then the segments from the oldest on; it stopped after segment Arg (-1: after the snapshot)
		if int(t.Arg) >= len(segs) {
			return false
		}
		ents, _ := os.ReadDir(filepath.Join(dst, runID))
		for _, e := range ents {
			if strings.HasSuffix(e.Name(), ".rdb") {
				os.Remove(filepath.Join(dst, runID, e.Name()))
			}
		}
		for i := 0; i <= int(t.Arg); i++ {
			os.Remove(segs[i].path)
		}
		return true
	case "alter-closed":
		if len(segs) < 2 || int(t.Arg) >= len(segs)-1 {
			return false
		}
		b, err := os.ReadFile(segs[t.Arg].path)
		if err != nil || int(t.Arg2) >= len(b) {
			return false
		}
		b[t.Arg2] ^= 0x20
		return os.WriteFile(segs[t.Arg].path, b, 0o644) == nil
	case "rdb-tmp":
		// a snapshot that was being received: <off>_<size>.rdb.tmp with Arg bytes (Arg == size: complete but not yet renamed)
		ents, _ := os.ReadDir(filepath.Join(dst, runID))
		for _, e := range ents {
			if strings.HasSuffix(e.Name(), ".rdb") {
				p := filepath.Join(dst, runID, e.Name())
				b, _ := os.ReadFile(p)
				if t.Arg > int64(len(b)) {
					return false
				}
				os.Remove(p)
				return os.WriteFile(p+".tmp", b[:t.Arg], 0o644) == nil
			}
		}
		return false
	}
	return false
}

func check(t pbt.TB, c Case) {
	st := pbt.For(prop)
	st.Case()
	cj := pbt.JSON(c)
	cache.SetVerifyCrc(c.VerifyCrc)
	base := pbt.TmpDir("c08")
	defer os.RemoveAll(base)
	imgs, lins, e := buildImages(c, base)
	if e != "" {
		st.Inconc(e)
		return
	}
	nt := false
	n := 0
	for i, img := range imgs {
		segs, rdbOff, rdbSize := truth(img)
		tears := []Tear{{Step: i, Kind: "none"}}
		if len(segs) > 0 {
			last := segs[len(segs)-1]
			for L := int64(0); L < last.data+16; L++ {
				tears = append(tears, Tear{Step: i, Kind: "truncate-newest", Arg: L})
			}
			tears = append(tears, Tear{Step: i, Kind: "drop-newest"})
			for k := -1; k < len(segs)-1; k++ {
				tears = append(tears, Tear{Step: i, Kind: "gc-partial", Arg: int64(k)})
			}
			if c.VerifyCrc {
				for k := 0; k < len(segs)-1; k++ {
					for _, pos := range []int64{1, 9, 16, 16 + segs[k].data/2, 16 + segs[k].data - 1} {
						tears = append(tears, Tear{Step: i, Kind: "alter-closed", Arg: int64(k), Arg2: pos})
					}
				}
			}
		}
		if rdbOff >= 0 {
			for L := int64(0); L <= rdbSize; L += 1 + rdbSize/7 {
				tears = append(tears, Tear{Step: i, Kind: "rdb-tmp", Arg: L})
			}
			tears = append(tears, Tear{Step: i, Kind: "rdb-tmp", Arg: rdbSize})
		}
		for _, tr := range tears {
			dst := filepath.Join(base, "torn")
			os.RemoveAll(dst)
			if !applyTear(img, tr, dst) {
				continue
			}
			fs, facts := judge(c, lins[i], dst, tr.Kind == "alter-closed" && tr.Arg2 >= 16, tr.Kind == "truncate-newest")
			n++
			if len(fs) == 0 && tr.Kind != "truncate-newest" {
				// the start-up itself removes files (segments behind a gap, a snapshot without its log): a second start must
				// find a directory that is consistent again
				fs2, _ := judge(c, lins[i], dst, tr.Kind == "alter-closed" && tr.Arg2 >= 16, true)
				n++
				for k := range fs2 {
					fs2[k].sig += ":second-reopen"
				}
				fs = append(fs, fs2...)
			}
			st.Class("image:" + tr.Kind)
			if tr.Kind != "none" && facts["served-bytes"] {
				nt = true
			}
			for _, f := range fs {
				st.Fail(t, f.sig+":"+tr.Kind, fmt.Sprintf("image after step %d, %s(%d,%d): %s", i, tr.Kind, tr.Arg, tr.Arg2, f.msg), pbt.JSON(FCase{c, tr}), nil)
			}
		}
	}
	st.Eval(n)
	st.Fault(n)
	if nt {
		st.NonTrivial(cj)
	} else {
		st.Sample(cj)
	}
}

func TestC08(t *testing.T) {
	rapid.Check(t, func(t *rapid.T) { check(t, genCase(t)) })
}

func TestC08Replay(t *testing.T) {
	if os.Getenv("VERIF_REPLAY") == "" {
		t.Skip("no VERIF_REPLAY")
	}
	v, err := pbt.LoadReplay()
	if err != nil {
		t.Fatal(err)
	}
	var c FCase
	if err := json.Unmarshal(v.Case, &c); err != nil {
		t.Fatal(err)
	}
	check(t, c.Case)
}
