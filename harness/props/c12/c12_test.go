// C12 — stream decoding is lossless and its offsets equal the bytes consumed.
//
// Domain: sequences of multi-bulk commands (any argument count, empty / binary
// / CRLF-laden / large arguments) encoded by the reference encoder, read
// through bufio readers of any size over an underlying reader that returns
// arbitrary fragments. Oracle: the generated arguments themselves and the
// running sum of encoded lengths; round trips through the tool's two encoders
// (client.Encode and proto.Writer.WriteArgs) compared byte-for-byte with the
// reference encoding.
package c12

import (
	"bufio"
	"bytes"
	"encoding/json"
	"errors"
	"fmt"
	"io"
	"os"
	"strconv"
	"testing"

	"pgregory.net/rapid"

	"github.com/mgtv-tech/redis-GunYu/pkg/redis/client"
	"github.com/mgtv-tech/redis-GunYu/pkg/redis/client/proto"

	"verifharness/pbt"
	"verifharness/ref/resp"
)

const prop = "C12"

func TestMain(m *testing.M) { pbt.Main(m) }

// Arg is a compact description of an argument: literal bytes, optionally
// repeated (so multi-megabyte arguments stay small in the case file).
type Arg struct {
	B   []byte `json:"b"`
	Rep int    `json:"rep,omitempty"` // B repeated Rep times when > 1
}

func (a Arg) Bytes() []byte {
	if a.Rep > 1 {
		return bytes.Repeat(a.B, a.Rep)
	}
	if a.B == nil {
		return []byte{}
	}
	return a.B
}

type Case struct {
	Cmds    [][]Arg `json:"cmds"`
	BufSize int     `json:"bufsize"`
	Frags   []int   `json:"frags"` // sizes the underlying reader returns, cycled
	Start   int64   `json:"start"`
	Newline []bool  `json:"newline,omitempty"` // a bare '\n' before command i (master keep-alive during handshake)
}

type fragReader struct {
	data  []byte
	frags []int
	i     int
}

func (f *fragReader) Read(p []byte) (int, error) {
	if len(f.data) == 0 {
		return 0, io.EOF
	}
	n := f.frags[f.i%len(f.frags)]
	f.i++
	if n > len(p) {
		n = len(p)
	}
	if n > len(f.data) {
		n = len(f.data)
	}
	copy(p, f.data[:n])
	f.data = f.data[n:]
	return n, nil
}

func genArg(big int) *rapid.Generator[Arg] {
	return rapid.Custom(func(t *rapid.T) Arg {
		switch rapid.IntRange(0, 9).Draw(t, "kind") {
		case 0:
			return Arg{B: []byte{}}
		case 1:
			return Arg{B: rapid.SampledFrom([][]byte{[]byte("\r\n"), []byte("$3\r\nfoo\r\n"), []byte("*1\r\n"), {0}, {0xff, 0xfe}, []byte("\n"), []byte("+OK\r\n"), []byte("-1")}).Draw(t, "special")}
		case 2:
			return Arg{B: rapid.SliceOfN(rapid.Byte(), 1, 40).Draw(t, "chunk"), Rep: rapid.IntRange(2, big).Draw(t, "rep")}
		default:
			return Arg{B: rapid.SliceOfN(rapid.Byte(), 0, 24).Draw(t, "bytes")}
		}
	})
}

func genCase(t *rapid.T) Case {
	big := 2000
	if pbt.Thorough() {
		big = 120000 // up to ~4.8 MB arguments
	}
	ncmd := rapid.IntRange(1, 8).Draw(t, "ncmd")
	c := Case{}
	// a few cases carry multi-megabyte arguments in the quick tier too (size classes around 1 MiB, 2 MiB, 4 MiB)
	huge := rapid.IntRange(0, 39).Draw(t, "hugeCase") == 0
	for i := 0; i < ncmd; i++ {
		na := rapid.IntRange(1, 6).Draw(t, "nargs")
		if rapid.IntRange(0, 30).Draw(t, "many") == 0 {
			na = rapid.IntRange(7, 300).Draw(t, "nargsMany")
		}
		cmd := make([]Arg, na)
		for j := range cmd {
			cmd[j] = genArg(big).Draw(t, "arg")
		}
		if huge && na > 1 && i < 3 {
			sz := rapid.SampledFrom([]int{1<<20 - 1, 1 << 20, 1<<20 + 1, 1<<20 + 4097, 2<<20 + 3, 4<<20 + 1}).Draw(t, "hugeSize")
			cmd[1+rapid.IntRange(0, na-2).Draw(t, "hugeIdx")] = Arg{B: []byte{byte(sz), 0x0d, 0x0a, 'x'}, Rep: (sz + 3) / 4}
		}
		// the first element is a command name: Redis command names are ASCII
		// words (the tool lower-cases them), so it is drawn from names, not bytes
		cmd[0] = Arg{B: []byte(rapid.SampledFrom([]string{"SET", "set", "HSET", "Del", "RPUSH", "zadd", "MULTI", "exec", "SELECT", "PING", "XADD", "eval", "pexpireat", "REPLCONF", "x"}).Draw(t, "name"))}
		c.Cmds = append(c.Cmds, cmd)
		c.Newline = append(c.Newline, rapid.IntRange(0, 15).Draw(t, "nl") == 0)
	}
	c.BufSize = rapid.SampledFrom([]int{16, 17, 31, 64, 512, 4096, 65536}).Draw(t, "bufsize")
	c.Frags = rapid.SliceOfN(rapid.IntRange(1, 70), 1, 6).Draw(t, "frags")
	if rapid.Bool().Draw(t, "bigfrag") {
		c.Frags = append(c.Frags, rapid.IntRange(1000, 100000).Draw(t, "bf"))
	}
	c.Start = rapid.Int64Range(0, 1<<40).Draw(t, "start")
	return c
}

type failure struct{ sig, msg string }

func run(c Case) (fs []failure, nontrivial bool) {
	st := pbt.For(prop)
	st.Eval(1)
	var stream []byte
	ends := make([]int64, len(c.Cmds))
	args := make([][][]byte, len(c.Cmds))
	maxArg := 0
	for i, cmd := range c.Cmds {
		bs := make([][]byte, len(cmd))
		for j, a := range cmd {
			bs[j] = a.Bytes()
			if len(bs[j]) > maxArg {
				maxArg = len(bs[j])
			}
		}
		args[i] = bs
		if i < len(c.Newline) && c.Newline[i] {
			stream = append(stream, '\n')
		}
		stream = append(stream, resp.Cmd(bs...)...)
		ends[i] = int64(len(stream))
	}
	total := len(stream)
	fr := &fragReader{data: stream, frags: c.Frags}
	dec := client.NewDecoder(bufio.NewReaderSize(fr, c.BufSize))
	maxFrag := 0
	for _, f := range c.Frags {
		if f > maxFrag {
			maxFrag = f
		}
	}
	nontrivial = maxArg > c.BufSize && maxArg > maxFrag
	st.ClassIf(nontrivial, "arg-spans-reads-and-exceeds-buffer")
	st.ClassIf(maxArg > 1<<20, "arg>1MiB")
	st.ClassIf(len(c.Cmds) > 1, "multi-cmd")

	for i := range c.Cmds {
		r, off, err := client.MustDecodeOpt(dec)
		if err != nil {
			return append(fs, failure{"decode-error", fmt.Sprintf("command %d: decode error %v", i, err)}), nontrivial
		}
		if off != ends[i] {
			fs = append(fs, failure{"offset-mismatch", fmt.Sprintf("command %d: decoder offset %d, bytes consumed %d (tool would store %d instead of %d)", i, off, ends[i], c.Start+off, c.Start+ends[i])})
		}
		name, got, err := client.ParseArgs(r)
		if err != nil {
			return append(fs, failure{"parse-error", fmt.Sprintf("command %d: ParseArgs error %v", i, err)}), nontrivial
		}
		want := args[i]
		if name != lower(want[0]) {
			fs = append(fs, failure{"cmd-name", fmt.Sprintf("command %d: name %q want lower(%q)", i, name, want[0])})
		}
		if len(got) != len(want)-1 {
			fs = append(fs, failure{"arg-count", fmt.Sprintf("command %d: %d args want %d", i, len(got), len(want)-1)})
			continue
		}
		for j := range got {
			if !bytes.Equal(got[j], want[j+1]) {
				fs = append(fs, failure{"arg-bytes", fmt.Sprintf("command %d arg %d: got %d bytes %.40q want %d bytes %.40q", i, j, len(got[j]), got[j], len(want[j+1]), want[j+1])})
				break
			}
		}
	}
	// nothing is left: the next decode must fail with EOF and must not report progress beyond the input
	if _, off, err := client.MustDecodeOpt(dec); err == nil {
		fs = append(fs, failure{"phantom-command", fmt.Sprintf("decoded a command after the end of input (offset %d, input %d bytes)", off, total)})
	} else if !errors.Is(err, io.EOF) && !errors.Is(err, io.ErrUnexpectedEOF) {
		fs = append(fs, failure{"eof-error-kind", fmt.Sprintf("end of input reported as %v", err)})
	}

	// encoder round trips, byte-exact against the reference encoding
	for i, want := range args {
		ref := resp.Cmd(want...)
		var b1 bytes.Buffer
		w1 := bufio.NewWriterSize(&b1, c.BufSize)
		if err := client.Encode(w1, client.ChangeArgsToResp(want[0], want[1:]), true); err != nil {
			fs = append(fs, failure{"encode-error", fmt.Sprintf("command %d: client.Encode error %v", i, err)})
		} else if !bytes.Equal(b1.Bytes(), ref) {
			fs = append(fs, failure{"client-encode-bytes", fmt.Sprintf("command %d: client.Encode produced %d bytes, reference %d", i, b1.Len(), len(ref))})
		}
		var b2 bytes.Buffer
		w2 := proto.NewWriter(&b2, c.BufSize)
		ia := make([]interface{}, len(want))
		for j, a := range want {
			switch j % 3 {
			case 0:
				ia[j] = string(a)
			default:
				ia[j] = a
			}
		}
		if err := w2.WriteArgs(ia); err != nil {
			fs = append(fs, failure{"writeargs-error", fmt.Sprintf("command %d: WriteArgs error %v", i, err)})
		} else if err := w2.Flush(); err != nil {
			fs = append(fs, failure{"writeargs-error", fmt.Sprintf("command %d: Flush error %v", i, err)})
		} else if !bytes.Equal(b2.Bytes(), ref) {
			fs = append(fs, failure{"proto-writer-bytes", fmt.Sprintf("command %d: proto.Writer produced %d bytes, reference %d", i, b2.Len(), len(ref))})
		}
	}
	return fs, nontrivial
}

func lower(b []byte) string {
	out := make([]byte, len(b))
	for i, c := range b {
		if c >= 'A' && c <= 'Z' {
			c += 32
		}
		out[i] = c
	}
	return string(out)
}

func check(t pbt.TB, c Case) {
	st := pbt.For(prop)
	cj := pbt.JSON(c)
	st.Case()
	fs, nt := run(c)
	if nt {
		st.NonTrivial(cj)
	} else {
		st.Sample(cj)
	}
	for _, f := range fs {
		st.Fail(t, f.sig, f.msg, cj, nil)
	}
}

func TestC12(t *testing.T) {
	rapid.Check(t, func(t *rapid.T) { check(t, genCase(t)) })
}

// TestC12Ints: integer arguments written by proto.Writer arrive as decimal text.
func TestC12Ints(t *testing.T) {
	rapid.Check(t, func(t *rapid.T) {
		st := pbt.For(prop)
		st.Case()
		st.Eval(1)
		n := rapid.Int64().Draw(t, "n")
		u := rapid.Uint64().Draw(t, "u")
		var b bytes.Buffer
		w := proto.NewWriter(&b, 64)
		_ = w.WriteArgs([]interface{}{"HSET", n, u, int(n >> 8), int32(n >> 33), uint16(u)})
		_ = w.Flush()
		r, err := client.Decode(bufio.NewReader(&b))
		cj := pbt.JSON(map[string]any{"n": n, "u": u})
		if err != nil {
			st.Fail(t, "ints-decode", err.Error(), cj, nil)
			return
		}
		_, a, err := client.ParseArgs(r)
		if err != nil || len(a) != 5 {
			st.Fail(t, "ints-decode", fmt.Sprintf("%v %d", err, len(a)), cj, nil)
			return
		}
		want := []string{strconv.FormatInt(n, 10), strconv.FormatUint(u, 10), strconv.Itoa(int(n >> 8)), strconv.Itoa(int(int32(n >> 33))), strconv.Itoa(int(uint16(u)))}
		for i := range want {
			if string(a[i]) != want[i] {
				st.Fail(t, "ints-text", fmt.Sprintf("arg %d: %q want %q", i, a[i], want[i]), cj, nil)
			}
		}
		if n < 0 && u > 1<<63 {
			st.NonTrivial(cj)
		}
	})
}

// FuzzC12: the fuzzer's bytes are decoded into a sequence of multi-bulk commands (the property's domain: inline commands
// and other junk are NOT part of it) followed by a truncated multi-bulk command; the stream is read through a small buffer
// with a generated fragmentation. Every command must come back with exactly its arguments and with the offset of its last
// byte, and the truncated tail must never be reported as a command.
func FuzzC12(f *testing.F) {
	f.Add([]byte("\x01\x01\x04"), uint16(3), uint8(16))
	f.Add([]byte("\x02\x03\x00\x01a\x00\x02\x01\x02\r\n"), uint16(9), uint8(3))
	f.Add([]byte("\x03\x01\x00\x02\x01\x01*\x05$-1\r\n\x02\x03\x28abcdefghijklmnopqrstuvwxyz0123456789ABCD"), uint16(1), uint8(1))
	f.Fuzz(func(t *testing.T, blob []byte, cut uint16, frag uint8) {
		st := pbt.For(prop)
		st.Case()
		st.Eval(1)
		pos := 0
		next := func() byte {
			if pos < len(blob) {
				pos++
				return blob[pos-1]
			}
			return 0
		}
		ncmd := int(next()%4) + 1
		var cmds [][][]byte
		for i := 0; i < ncmd+1; i++ { // the last one becomes the truncated tail
			argc := int(next()%6) + 1
			// the command name is a name (ASCII, non-empty); everything else is arbitrary bytes
			args := [][]byte{[]byte([]string{"SET", "del", "HSET", "x", "PING", "zadd", "EVAL", "json.set"}[next()%8])}
			for a := 1; a < argc; a++ {
				n := int(next() % 48)
				arg := make([]byte, 0, n)
				for k := 0; k < n; k++ {
					arg = append(arg, next())
				}
				args = append(args, arg)
			}
			cmds = append(cmds, args)
		}
		var data []byte
		var ends []int64
		for _, c := range cmds[:ncmd] {
			data = append(data, resp.Cmd(c...)...)
			ends = append(ends, int64(len(data)))
		}
		tail := resp.Cmd(cmds[ncmd]...)
		data = append(data, tail[:int(cut)%len(tail)]...)
		fr := &fragReader{data: data, frags: []int{int(frag%64) + 1}}
		dec := client.NewDecoder(bufio.NewReaderSize(fr, 16))
		cj := func() []byte { return pbt.JSON(map[string]any{"blob": blob, "cut": cut, "frag": frag}) }
		for i := 0; i < ncmd; i++ {
			r, off, err := client.MustDecodeOpt(dec)
			if err != nil {
				st.Fail(t, "decode-error", fmt.Sprintf("command %d of %d: %v", i, ncmd, err), cj(), nil)
				return
			}
			if off != ends[i] {
				st.Fail(t, "offset-mismatch", fmt.Sprintf("command %d ends at byte %d, the decoder says %d", i, ends[i], off), cj(), nil)
				return
			}
			name, args, perr := client.ParseArgs(r)
			if perr != nil || len(args) != len(cmds[i])-1 {
				st.Fail(t, "args-differ", fmt.Sprintf("command %d: %d arguments (%v), sent %d", i, len(args)+1, perr, len(cmds[i])), cj(), nil)
				return
			}
			_ = name
			for a := range args {
				if !bytes.Equal(args[a], cmds[i][a+1]) {
					st.Fail(t, "args-differ", fmt.Sprintf("command %d argument %d: %q, sent %q", i, a+1, args[a], cmds[i][a+1]), cj(), nil)
					return
				}
			}
		}
		if _, off, err := client.MustDecodeOpt(dec); err == nil {
			st.Fail(t, "truncated-command-reported", fmt.Sprintf("a command cut after %d of %d bytes was reported as complete (offset %d of %d bytes supplied)", int(cut)%len(tail), len(tail), off, len(data)), cj(), nil)
		}
	})
}

func TestC12Replay(t *testing.T) {
	if os.Getenv("VERIF_REPLAY") == "" {
		t.Skip("no VERIF_REPLAY")
	}
	v, err := pbt.LoadReplay()
	if err != nil {
		t.Fatal(err)
	}
	var c Case
	if err := json.Unmarshal(v.Case, &c); err != nil || len(c.Cmds) == 0 {
		t.Skip("no such case type")
	}
	check(t, c)
}
