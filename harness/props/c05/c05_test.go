// C05 — the local cache returns exactly the bytes written, at the offsets written.
package c05

import (
	"encoding/json"
	"fmt"
	"os"
	"testing"
	"time"

	"pgregory.net/rapid"

	"github.com/mgtv-tech/redis-GunYu/syncer"

	"verifharness/cache"
	"verifharness/pbt"
)

const prop = "C05"

func TestMain(m *testing.M) { pbt.Main(m) }

type Op struct {
	Op   string `json:"op"`
	Hold bool   `json:"hold,omitempty"` // open / openSnap: a slow consumer - it reads 64 bytes and goes on only at a later "begin"; rdb / aofonly / del / switch: readers that are still open are NOT closed first (they belong to someone else, e.g. to followers served by a leader)
	N  int64  `json:"n,omitempty"` // bytes / snapshot size / offset delta
	K  int    `json:"k,omitempty"` // reader index
}

type Case struct {
	Disk      bool  `json:"disk"`
	LogSize   int64 `json:"logSize"`
	MaxSize   int64 `json:"maxSize"`
	VerifyCrc bool  `json:"verifyCrc"`
	Start     int64 `json:"start"`
	Ops       []Op  `json:"ops"`
}

func genCase(t *rapid.T) Case {
	c := Case{}
	c.Disk = rapid.Bool().Draw(t, "disk")
	c.LogSize = rapid.SampledFrom([]int64{32, 64, 100, 512, 4096}).Draw(t, "logSize")
	c.MaxSize = rapid.SampledFrom([]int64{-1, c.LogSize * 3, c.LogSize * 3, c.LogSize * 8}).Draw(t, "maxSize")
	c.VerifyCrc = rapid.Bool().Draw(t, "verifyCrc")
	c.Start = rapid.Int64Range(1, 1<<40).Draw(t, "start")
	n := rapid.IntRange(3, 30).Draw(t, "nops")
	if rapid.Bool().Draw(t, "beginRdb") {
		size := rapid.Int64Range(1, 3*c.LogSize).Draw(t, "rdbSize")
		if rapid.IntRange(0, 5).Draw(t, "bigRdb") == 0 {
			// larger than everything a reader buffers ahead of its consumer (1 MiB pipe + 1 MiB buffer): a slow consumer then keeps the
			// snapshot referenced for as long as it likes
			size = 2<<20 + rapid.Int64Range(100000, 600000).Draw(t, "bigRdbSize")
		}
		c.Ops = append(c.Ops, Op{Op: "rdb", N: size})
		if size > 2<<20 {
			// the interesting history for a big snapshot: the log grows past the size limit while a slow consumer still replays the
			// snapshot, and the collector runs
			if c.MaxSize < 0 {
				c.MaxSize = 3 * c.LogSize
			}
			for i, k := 0, rapid.IntRange(0, 5).Draw(t, "bigAppends"); i < k; i++ {
				c.Ops = append(c.Ops, Op{Op: "append", N: rapid.Int64Range(1, 3*c.LogSize).Draw(t, "n")})
			}
			c.Ops = append(c.Ops, Op{Op: "openSnap", N: rapid.Int64Range(1, 6).Draw(t, "below"), Hold: rapid.IntRange(0, 3).Draw(t, "slowSnap") > 0})
			for i, k := 0, rapid.IntRange(0, 5).Draw(t, "bigAppends2"); i < k; i++ {
				c.Ops = append(c.Ops, Op{Op: "append", N: rapid.Int64Range(1, 3*c.LogSize).Draw(t, "n")})
			}
			c.Ops = append(c.Ops, Op{Op: "gc"})
		}
	} else {
		c.Ops = append(c.Ops, Op{Op: "aofonly"})
	}
	for len(c.Ops) < n {
		switch w := rapid.IntRange(0, 29).Draw(t, "kind"); {
		case w < 11:
			c.Ops = append(c.Ops, Op{Op: "append", N: rapid.OneOf(rapid.Int64Range(1, 20), rapid.Int64Range(1, 3*c.LogSize), rapid.Just(c.LogSize), rapid.Just(c.LogSize-1), rapid.Just(c.LogSize+1)).Draw(t, "n")})
		case w < 17:
			c.Ops = append(c.Ops, Op{Op: "open", N: rapid.Int64Range(-6, 1000).Draw(t, "dx"), Hold: rapid.IntRange(0, 5).Draw(t, "hold") == 0})
		case w < 19:
			c.Ops = append(c.Ops, Op{Op: "openTail", N: rapid.Int64Range(-3, 6).Draw(t, "dtail")})
		case w < 20:
			c.Ops = append(c.Ops, Op{Op: "close", K: rapid.IntRange(0, 8).Draw(t, "k")})
		case w < 21:
			c.Ops = append(c.Ops, Op{Op: "begin"})
		case w < 24:
			c.Ops = append(c.Ops, Op{Op: "gc"})
		case w < 25:
			c.Ops = append(c.Ops, Op{Op: "replace"})
		case w < 26:
			c.Ops = append(c.Ops, Op{Op: "switch", Hold: rapid.IntRange(0, 2).Draw(t, "keepReaders") == 0})
		case w < 27:
			c.Ops = append(c.Ops, Op{Op: "del", Hold: rapid.IntRange(0, 2).Draw(t, "keepReaders") == 0})
		case w < 28:
			if rapid.Bool().Draw(t, "snapReader") {
				// a reader on the cached snapshot (what a target that needs the full copy gets), typically still open when the collector runs
				c.Ops = append(c.Ops, Op{Op: "openSnap", N: rapid.Int64Range(1, 6).Draw(t, "below"), Hold: rapid.Bool().Draw(t, "holdSnap")})
			} else {
				c.Ops = append(c.Ops, Op{Op: "rdb", N: rapid.Int64Range(1, 3*c.LogSize).Draw(t, "rdbSize2"), Hold: rapid.IntRange(0, 2).Draw(t, "keepReaders") == 0})
			}
		case w < 29:
			c.Ops = append(c.Ops, Op{Op: "reopen"})
		default:
			if rapid.Bool().Draw(t, "failedSnapshot") {
				// a full resynchronisation whose snapshot transfer breaks in the middle; the next round starts by asking for the start point
				c.Ops = append(c.Ops, Op{Op: "rdbFail", N: rapid.Int64Range(2, 3*c.LogSize).Draw(t, "failSize"), K: rapid.IntRange(0, 1).Draw(t, "sameIdAgain")})
			} else {
				c.Ops = append(c.Ops, Op{Op: "aofonly", Hold: rapid.IntRange(0, 2).Draw(t, "keepReaders") == 0})
			}
		}
	}
	return c
}

type failure struct{ sig, msg string }

type pumpRef struct {
	p     *cache.Pump
	epoch int
	open  bool
	held  bool // slow consumer, paused
	slow  bool // was a slow consumer at some time: the cache's reader is then up to 2 MiB ahead of what the consumer has taken
	dsGen int  // generation of the cache's index the reader was registered in (a replication-id switch or a reopen builds a new index)
}

type runner struct {
	c       Case
	ch      *cache.Chan
	lin     int
	id      string
	has     bool
	left    int64
	right   int64
	rdbOff  int64
	rdbSize int64
	rdbOK   bool
	epoch   int
	dsGen   int
	pumps   []*pumpRef
	fails   []failure
	inconc  string
	facts   map[string]bool
	trace   []string
	hung    bool // a call into the cache never returned: the cache must not be touched (closed) any more
}

func (r *runner) fail(sig, msg string) { r.fails = append(r.fails, failure{sig, msg}) }

func (r *runner) newLineage() {
	r.dsGen++
	r.lin++
	r.id = fmt.Sprintf("%040d", r.lin)
	r.epoch++
}

func (r *runner) off(o int64) syncer.Offset { return syncer.Offset{RunId: r.id, Offset: o} }

// guarded runs one call into the cache that resets it; with readers of other parties still open the call is given 20 s
func (r *runner) guarded(what string, f func() error) (error, bool) {
	ch := make(chan error, 1)
	go func() { ch <- f() }()
	select {
	case err := <-ch:
		return err, true
	case <-time.After(20 * time.Second):
		open, kind := 0, "log-reader"
		for _, p := range r.pumps {
			if p.open {
				open++
				if !p.p.Aof && p.held {
					kind = "snapshot-reader"
				}
			}
		}
		r.fail("cache-reset-never-returns:"+kind, fmt.Sprintf("%s has not returned after 20 s (%d readers of the previous contents still open, range [%d,%d], snapshot=%v)", what, open, r.left, r.right, r.rdbOK))
		r.hung = true
		return nil, false
	}
}

// afterReset: the readers that were left open across a cache reset have been invalidated by it. The reset closes them synchronously
// (their pipes are closed before it returns), so each of them must now end or fail; one that is still being served nothing 10 s later
// was forgotten (its consumer - a follower - would wait for ever). Bytes are compared as always.
func (r *runner) afterReset(kept []*pumpRef) {
	for _, p := range kept {
		if p.held {
			p.held = false
			p.p.Resume()
		}
	}
	deadline := time.Now().Add(10 * time.Second)
	for i, p := range kept {
		for {
			_, done, _ := p.p.Snapshot()
			if done {
				break
			}
			if time.Now().After(deadline) {
				ended := 0
				for _, q := range kept {
					if _, d, _ := q.p.Snapshot(); d {
						ended++
					}
				}
				if ended == 0 {
					// nothing ended at all: not the "one reader forgotten" pattern; do not turn a time bound into a verdict
					r.inconc = fmt.Sprintf("none of the %d readers left open across a cache reset ended within 10 s", len(kept))
					return
				}
				r.fail("invalidated-reader-neither-ends-nor-fails", fmt.Sprintf("%d readers were open when the cache was reset; %d of them ended at once, reader %d (opened at %d, log reader=%v) is still open and silent 10 s later", len(kept), ended, i, p.p.X, p.p.Aof))
				return
			}
			time.Sleep(time.Millisecond)
		}
		r.facts["invalidated-reader-ended"] = true
	}
}

func (r *runner) keptReaders(keep bool) []*pumpRef {
	if !keep {
		return nil
	}
	var out []*pumpRef
	for _, p := range r.pumps {
		// only readers registered in the index that is being reset: a replication-id switch (SetRunId -> a new index is built from the
		// directory) leaves the readers of the previous index on their own - nothing ever closes them, by construction, so a time bound is
		// all one could hold against them (an observation in DESIGN.md, not a verdict)
		if p.open && p.dsGen == r.dsGen {
			out = append(out, p)
		}
	}
	return out
}

func (r *runner) closeStaleUnless(keep bool) {
	if keep {
		for _, p := range r.pumps {
			if p.open {
				r.facts["reset-with-open-readers"] = true
				if !p.p.Aof && p.held {
					r.facts["reset-with-live-snapshot-reader"] = true
				}
			}
		}
		return
	}
	r.closeStale()
}

func (r *runner) closeStale() {
	// the input closes its own reader before it resets the cache
	for _, p := range r.pumps {
		if p.open {
			p.p.Close()
			p.open = false
		}
	}
}

// checkAll verifies every byte every reader has returned, and that live readers follow the writer.
func (r *runner) checkAll() {
	for i, p := range r.pumps {
		if p.held {
			continue
		}
		if p.open && p.epoch == r.epoch {
			if p.p.Aof && p.p.X <= r.right {
				want := int(r.right - p.p.X)
				if !p.p.WaitProgress(want, 10*time.Second, 120*time.Second) {
					_, done, err := p.p.Snapshot()
					if done {
						r.fail("live-reader-ended", fmt.Sprintf("reader %d (opened at %d, cache range [%d,%d]) ended with %v after %d of %d available bytes although nothing invalidated it", i, p.p.X, r.left, r.right, err, p.p.Len(), want))
					} else {
						r.inconc = fmt.Sprintf("reader %d (opened at %d) delivered %d of %d available bytes and then nothing for 10 s", i, p.p.X, p.p.Len(), want)
					}
				}
				if p.p.Len() > want {
					r.fail("reader-delivered-more-than-written", fmt.Sprintf("reader %d opened at %d delivered %d bytes, only %d were written", i, p.p.X, p.p.Len(), want))
				}
				if int64(p.p.Len()) > r.c.LogSize {
					r.facts["reader-crossed-rotation"] = true
				}
			} else if !p.p.Aof {
				if !p.p.WaitProgress(int(p.p.RdbSize), 10*time.Second, 120*time.Second) {
					r.inconc = fmt.Sprintf("snapshot reader %d delivered %d of %d bytes within 10 s", i, p.p.Len(), p.p.RdbSize)
				}
			}
		}
		if d := p.p.Verify(); d != "" {
			sig := "reader-returned-wrong-bytes"
			if p.epoch != r.epoch {
				sig = "invalidated-reader-returned-other-bytes"
			}
			r.fail(sig, fmt.Sprintf("reader %d: %s", i, d))
		}
	}
	if r.has {
		r.probeValid()
	}
	if r.has {
		l, rr := r.ch.C.GetOffsetRange(r.id)
		if rr != r.right {
			r.fail("range-right-mismatch", fmt.Sprintf("GetOffsetRange reports right=%d, %d bytes up to offset %d were written", rr, r.right-r.left, r.right))
		}
		if l < r.left {
			r.fail("range-left-claims-removed-bytes", fmt.Sprintf("GetOffsetRange reports left=%d, the cache only holds [%d,%d]", l, r.left, r.right))
		}
	}
}

// probeValid: "an offset is reported valid only if such a read is possible" - after every step a few offsets of the reported range
// (both ends, next to them, the middle) are asked for; where the cache says valid, a fresh reader must open and deliver the right bytes.
func (r *runner) probeValid() {
	l, rr := r.ch.C.GetOffsetRange(r.id)
	if l < 0 || rr < l {
		return
	}
	seen := map[int64]bool{}
	for _, x := range []int64{l, l + 1, (l + rr) / 2, rr - 1, rr} {
		if x < l || x > rr || seen[x] {
			continue
		}
		seen[x] = true
		if !r.ch.C.IsValidOffset(r.off(x)) {
			continue
		}
		type opened struct {
			rd  syncer.ChannelReader
			err error
		}
		och := make(chan opened, 1)
		go func() {
			rd, err := r.ch.C.NewReader(r.off(x))
			och <- opened{rd, err}
		}()
		var o opened
		select {
		case o = <-och:
		case <-time.After(20 * time.Second):
			r.fail("reader-open-never-returns", fmt.Sprintf("NewReader(%d) has not returned after 20 s (range [%d,%d], verifyCrc=%v)", x, l, rr, r.c.VerifyCrc))
			r.hung = true
			return
		}
		if o.err != nil {
			r.fail("valid-offset-not-readable", fmt.Sprintf("IsValidOffset(%d) is true (reported range [%d,%d], written [%d,%d], snapshot=%v) but NewReader fails: %v", x, l, rr, r.left, r.right, r.rdbOK, o.err))
			return
		}
		r.facts["probe"] = true
		p := cache.StartPump(o.rd, r.lin, x)
		if p.Aof {
			want := int(rr - x)
			if want > 8 {
				want = 8
			}
			if o.rd.Left() != x {
				r.fail("reader-left-differs", fmt.Sprintf("reader requested at %d reports Left()=%d", x, o.rd.Left()))
			} else if !p.WaitProgress(want, 10*time.Second, 60*time.Second) {
				_, done, err := p.Snapshot()
				if done {
					r.fail("valid-offset-not-readable", fmt.Sprintf("IsValidOffset(%d) is true (reported range [%d,%d]) but a fresh reader ended with %v after %d bytes", x, l, rr, err, p.Len()))
				} else {
					r.inconc = fmt.Sprintf("probe reader at %d delivered %d of %d bytes and then nothing for 10 s", x, p.Len(), want)
				}
			}
			if d := p.Verify(); d != "" {
				r.fail("reader-returned-wrong-bytes", "probe "+d)
			}
		} else if !r.rdbOK {
			r.fail("snapshot-offered-but-absent", fmt.Sprintf("a snapshot reader was handed out for offset %d but no complete snapshot is cached", x))
		}
		p.Close()
		if len(r.fails) > 0 || r.inconc != "" {
			return
		}
	}
}

func (r *runner) step(op Op) {
	switch op.Op {
	case "rdb", "aofonly":
		kept := r.keptReaders(op.Hold)
		r.closeStaleUnless(op.Hold)
		r.ch.StopWriter() // a new run: the previous run's writer was stopped when that run ended
		if r.ch.C.RunId() != "" {
			err, ok := r.guarded("DelRunId", func() error { return r.ch.C.DelRunId(r.ch.C.RunId()) })
			if !ok {
				return
			}
			if err != nil {
				r.inconc = "DelRunId: " + err.Error()
				return
			}
			if r.c.Disk && len(kept) > 0 {
				r.afterReset(kept)
				if len(r.fails) > 0 || r.inconc != "" {
					return
				}
			}
		}
		r.newLineage()
		if err, ok := r.guarded("SetRunId", func() error { return r.ch.C.SetRunId(r.id) }); !ok {
			return
		} else if err != nil {
			r.inconc = "SetRunId: " + err.Error()
			return
		}
		off := r.c.Start + int64(r.lin)*100000
		r.rdbOK = false
		if op.Op == "rdb" {
			if e := r.ch.WriteRdb(r.lin, off, op.N, op.N); e != "" {
				r.inconc = e
				return
			}
			r.rdbOff, r.rdbSize, r.rdbOK = off, op.N, true
			r.facts["snapshot"] = true
		}
		if e := r.ch.StartAof(off); e != "" {
			r.inconc = e
			return
		}
		r.left, r.right, r.has = off, off, true
	case "rdbFail":
		r.closeStale()
		r.ch.StopWriter()
		if r.ch.C.RunId() != "" {
			if err := r.ch.C.DelRunId(r.ch.C.RunId()); err != nil {
				r.inconc = "DelRunId: " + err.Error()
				return
			}
		}
		r.newLineage()
		if err := r.ch.C.SetRunId(r.id); err != nil {
			r.inconc = "SetRunId: " + err.Error()
			return
		}
		off := r.c.Start + int64(r.lin)*100000
		if e := r.ch.WriteRdb(r.lin, off, op.N, op.N/2); e != "" {
			r.inconc = e
			return
		}
		r.has, r.rdbOK = false, false
		r.facts["snapshot-transfer-broken"] = true
		// the next round: the input asks the cache where to continue (and, on the disk backend, selects the same id again)
		sp, err := r.ch.C.StartPoint([]string{r.id})
		if err != nil {
			r.inconc = "StartPoint after a broken snapshot transfer: " + err.Error()
			return
		}
		if op.K == 1 {
			if err := r.ch.C.SetRunId(r.id); err != nil {
				r.inconc = "SetRunId: " + err.Error()
				return
			}
		}
		if a, sz := r.ch.C.GetRdb(r.id); a != -1 {
			r.fail("incomplete-snapshot-offered", fmt.Sprintf("a snapshot transfer of %d bytes at offset %d broke after %d bytes; in the next round GetRdb offers (%d,%d) and StartPoint says (%s,%d)", op.N, off, op.N/2, a, sz, sp.RunId, sp.Offset))
			return
		}
		for _, x := range []int64{off - 1, off} {
			if !r.ch.C.IsValidOffset(r.off(x)) {
				continue
			}
			rd, err := r.ch.C.NewReader(r.off(x))
			if err != nil {
				r.fail("valid-offset-not-readable", fmt.Sprintf("after a broken snapshot transfer (offset %d, %d of %d bytes) IsValidOffset(%d) is true but NewReader fails: %v", off, op.N/2, op.N, x, err))
				return
			}
			if !rd.IsAof() {
				r.fail("incomplete-snapshot-offered", fmt.Sprintf("after a broken snapshot transfer (offset %d, %d of %d bytes) a snapshot reader is handed out for offset %d", off, op.N/2, op.N, x))
			}
			p := cache.StartPump(rd, r.lin, x)
			p.Close()
			if len(r.fails) > 0 {
				return
			}
		}
	case "append":
		if !r.has {
			return
		}
		if e := r.ch.Append(r.lin, r.right, op.N, r.id); e != "" {
			r.inconc = e
			return
		}
		r.right += op.N
	case "open", "openTail", "openSnap":
		if !r.has || (op.Op == "openSnap" && !r.rdbOK) {
			return
		}
		x := r.left + op.N
		if op.Op == "openSnap" {
			x = r.rdbOff - op.N
		} else if op.Op == "openTail" {
			x = r.right + op.N
		} else if x > r.right+5 {
			x = r.left + op.N%(r.right-r.left+6)
		}
		valid := r.ch.C.IsValidOffset(r.off(x))
		// opening a reader takes microseconds; it is given 20 s. A call that has not returned then, with nothing else running in
		// this cache, waits for a lock it will never get
		type opened struct {
			rd  syncer.ChannelReader
			err error
		}
		och := make(chan opened, 1)
		go func() {
			rd, err := r.ch.C.NewReader(r.off(x))
			och <- opened{rd, err}
		}()
		var rd syncer.ChannelReader
		var err error
		select {
		case o := <-och:
			rd, err = o.rd, o.err
		case <-time.After(20 * time.Second):
			r.fail("reader-open-never-returns", fmt.Sprintf("NewReader(%d) has not returned after 20 s on an idle cache (range [%d,%d], verifyCrc=%v)", x, r.left, r.right, r.c.VerifyCrc))
			r.hung = true
			return
		}
		r.facts["open"] = true
		if err != nil {
			if valid {
				r.fail("valid-offset-not-readable", fmt.Sprintf("IsValidOffset(%d) is true (cache range [%d,%d], snapshot=%v) but NewReader fails: %v", x, r.left, r.right, r.rdbOK, err))
			}
			return
		}
		lim := int64(-1)
		if op.Hold {
			lim = 64
			r.facts["slow-consumer"] = true
		}
		p := cache.StartPumpLimit(rd, r.lin, x, lim)
		if p.Aof {
			if rd.Left() != x {
				r.fail("reader-left-differs", fmt.Sprintf("reader requested at %d reports Left()=%d", x, rd.Left()))
			}
			if x < r.left || x > r.right {
				r.fail("reader-outside-cached-range", fmt.Sprintf("a log reader was handed out for offset %d, the cache holds [%d,%d]", x, r.left, r.right))
			}
		} else {
			if !r.rdbOK {
				r.fail("snapshot-offered-but-absent", fmt.Sprintf("a snapshot reader was handed out for offset %d but no complete snapshot is cached", x))
			} else if p.RdbOff != r.rdbOff || p.RdbSize != r.rdbSize {
				r.fail("snapshot-reader-geometry", fmt.Sprintf("snapshot reader reports (%d,%d), the cached snapshot is (%d,%d)", p.RdbOff, p.RdbSize, r.rdbOff, r.rdbSize))
			}
			r.facts["snapshot-reader"] = true
		}
		r.pumps = append(r.pumps, &pumpRef{p: p, epoch: r.epoch, open: true, held: op.Hold, slow: op.Hold, dsGen: r.dsGen})
	case "begin":
		for _, p := range r.pumps {
			if p.held && p.open {
				p.held = false
				p.p.Resume()
			}
		}
	case "close":
		if op.K < len(r.pumps) && r.pumps[op.K].open {
			r.pumps[op.K].p.Close()
			r.pumps[op.K].open = false
		}
	case "gc":
		if !r.has {
			return
		}
		for _, p := range r.pumps {
			if p.open && p.held && p.epoch == r.epoch && !p.p.Aof {
				r.facts["gc-while-slow-snapshot-reader"] = true
			}
		}
		r.ch.Gc()
		l, _ := r.ch.C.GetOffsetRange(r.id)
		if l > r.left {
			r.facts["gc-removed-segment"] = true
			// a live reader must never lose the bytes ahead of it
			for i, p := range r.pumps {
				if p.open && !p.slow && p.epoch == r.epoch && p.p.Aof && p.p.X+int64(p.p.Len()) < l {
					r.fail("gc-removed-bytes-under-a-reader", fmt.Sprintf("collector advanced left to %d while reader %d is still at %d", l, i, p.p.X+int64(p.p.Len())))
				}
			}
			r.left = l
		}
		if a, _ := r.ch.C.GetRdb(r.id); a == -1 {
			r.rdbOK = false
		}
	case "replace":
		if !r.has {
			return
		}
		r.epoch++
		if e := r.ch.StartAof(r.right); e != "" {
			r.inconc = e
		}
	case "switch":
		if !r.has {
			return
		}
		r.closeStaleUnless(op.Hold)
		r.ch.StopWriter()
		r.epoch++
		r.dsGen++
		r.id = fmt.Sprintf("%039da", r.lin)
		if err, ok := r.guarded("SetRunId", func() error { return r.ch.C.SetRunId(r.id) }); !ok {
			return
		} else if err != nil {
			r.inconc = "SetRunId(switch): " + err.Error()
			return
		}
		if e := r.ch.StartAof(r.right); e != "" {
			r.inconc = e
		}
	case "del":
		if !r.has {
			return
		}
		r.closeStaleUnless(op.Hold)
		r.ch.StopWriter()
		r.epoch++
		if err, ok := r.guarded("DelRunId", func() error { return r.ch.C.DelRunId(r.id) }); !ok {
			return
		} else if err != nil {
			r.inconc = "DelRunId: " + err.Error()
			return
		}
		r.has, r.rdbOK = false, false
		if r.ch.C.IsValidOffset(r.off(r.right)) {
			r.fail("offset-valid-after-delete", fmt.Sprintf("offset %d still reported valid after the replication id was deleted", r.right))
		}
	case "reopen":
		if !r.c.Disk || !r.has {
			return
		}
		r.closeStale()
		r.epoch++
		r.dsGen++
		r.ch.Close()
		r.ch = cache.Open(true, r.ch.Dir, r.c.LogSize, r.c.MaxSize)
		sp, err := r.ch.C.StartPoint([]string{r.id})
		if err != nil {
			r.inconc = "StartPoint after reopen: " + err.Error()
			return
		}
		if r.right == r.left && !r.rdbOK && (sp.RunId == "?" || sp.Offset < 0) {
			// nothing had been cached yet: "none" is the right answer
			r.has = false
			return
		}
		if sp.RunId != r.id || sp.Offset != r.right {
			r.fail("reopen-start-point", fmt.Sprintf("after a clean close and reopen StartPoint is (%s,%d), the cache held [%d,%d] of %s", sp.RunId, sp.Offset, r.left, r.right, r.id))
			r.has = false
			return
		}
		r.facts["reopen"] = true
		if e := r.ch.StartAof(r.right); e != "" {
			r.inconc = e
		}
	}
}

func run(c Case) (fails []failure, inconc string, facts map[string]bool) {
	pbt.For(prop).Eval(1)
	cache.SetVerifyCrc(c.VerifyCrc)
	dir := ""
	if c.Disk {
		dir = pbt.TmpDir("c05")
		defer os.RemoveAll(dir)
	}
	r := &runner{c: c, facts: map[string]bool{}}
	r.ch = cache.Open(c.Disk, dir, c.LogSize, c.MaxSize)
	defer func() {
		if r.hung {
			return // closing would block on the same lock
		}
		for _, p := range r.pumps {
			if p.open {
				p.p.Close()
			}
		}
		r.ch.Close()
	}()
	for i, op := range c.Ops {
		r.step(op)
		if r.hung {
			for k := range r.fails {
				r.fails[k].msg = fmt.Sprintf("at op %d %+v: %s", i, op, r.fails[k].msg)
			}
			return r.fails, "", r.facts
		}
		if r.inconc != "" {
			return r.fails, fmt.Sprintf("op %d %+v: %s", i, op, r.inconc), r.facts
		}
		r.checkAll()
		if r.inconc != "" || len(r.fails) > 0 {
			for k := range r.fails {
				r.fails[k].msg = fmt.Sprintf("after op %d %+v: %s", i, op, r.fails[k].msg)
			}
			return r.fails, r.inconc, r.facts
		}
	}
	return r.fails, "", r.facts
}

func check(t pbt.TB, c Case) {
	st := pbt.For(prop)
	st.Case()
	cj := pbt.JSON(c)
	fails, inconc, facts := run(c)
	for k := range facts {
		st.Class(k)
	}
	st.ClassIf(c.Disk, "disk")
	st.ClassIf(!c.Disk, "memory")
	if inconc != "" && len(fails) == 0 {
		st.Inconc(inconc)
		return
	}
	if facts["reader-crossed-rotation"] && facts["gc-removed-segment"] {
		st.NonTrivial(cj)
	} else {
		st.Sample(cj)
	}
	for _, f := range fails {
		st.Fail(t, f.sig, f.msg, cj, nil)
	}
}

func TestC05(t *testing.T) {
	rapid.Check(t, func(t *rapid.T) { check(t, genCase(t)) })
}

func TestC05Replay(t *testing.T) {
	if os.Getenv("VERIF_REPLAY") == "" {
		t.Skip("no VERIF_REPLAY")
	}
	v, err := pbt.LoadReplay()
	if err != nil {
		t.Fatal(err)
	}
	var c Case
	if err := json.Unmarshal(v.Case, &c); err != nil {
		t.Fatal(err)
	}
	for i := 0; i < 3; i++ {
		check(t, c)
	}
}
