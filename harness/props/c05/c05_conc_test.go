// C05, second unit — the same cache, with writer, readers and writer replacement running concurrently.
//
// A source feeds the log writer continuously (generated chunk sizes, never waiting for the cache), readers are opened at
// generated moments at offsets the cache reports valid, and the writer is replaced (closed while it is appending, a new one
// attached at the position the cache then reports - what the input does on every reconnection) a generated number of times.
// While this runs, every reader's bytes are compared with the byte function (never other bytes). When everything has
// stopped, the cache is quiescent and the judgement does not depend on timing any more: for a sample of offsets the cache
// reports valid, a FRESH reader must deliver exactly the bytes up to the reported right end ("an offset is reported valid
// only if such a read is possible").
package c05

import (
	"encoding/json"
	"fmt"
	"io"
	"os"
	"sync"
	"sync/atomic"
	"testing"
	"time"

	"pgregory.net/rapid"

	"github.com/mgtv-tech/redis-GunYu/syncer"

	"verifharness/cache"
	"verifharness/gen"
	"verifharness/pbt"
)

type CCase struct {
	Disk     bool  `json:"disk"`
	LogSize  int64 `json:"logSize"`
	Start    int64 `json:"start"`
	Chunks   []int `json:"chunks"`   // sizes the source writes, cyclically
	Replaces []int `json:"replaces"` // the writer is replaced after the cache has grown by this many bytes (one entry per replacement)
	Readers  []int `json:"readers"`  // a reader is opened when the cache has grown by this many bytes, at a generated valid offset
	ROff     []int `json:"roff"`     // per reader: distance from the left end (modulo the range)
	Conc     bool  `json:"conc"`     // true marks the case type for the replay dispatcher
	MaxSegs  int   `json:"maxSegs"`  // size limit in segments (0: unlimited); the disk collector runs every millisecond, the memory cache collects by itself
}

func genCCase(t *rapid.T) CCase {
	c := CCase{Conc: true, Disk: rapid.Bool().Draw(t, "disk")}
	c.LogSize = rapid.SampledFrom([]int64{64, 256, 1024, 4096}).Draw(t, "logSize")
	c.Start = rapid.Int64Range(1, 1<<40).Draw(t, "start")
	c.Chunks = rapid.SliceOfN(rapid.SampledFrom([]int{1, 7, 100, 1000, 4096, 5000}), 1, 4).Draw(t, "chunks")
	c.MaxSegs = rapid.SampledFrom([]int{0, 0, 6, 20}).Draw(t, "maxSegs")
	nr := rapid.IntRange(1, 6).Draw(t, "nreplace")
	for i := 0; i < nr; i++ {
		c.Replaces = append(c.Replaces, rapid.IntRange(1, 20000).Draw(t, "replaceAfter"))
	}
	nrd := rapid.IntRange(0, 4).Draw(t, "nreaders")
	for i := 0; i < nrd; i++ {
		c.Readers = append(c.Readers, rapid.IntRange(0, 60000).Draw(t, "readerAfter"))
		c.ROff = append(c.ROff, rapid.IntRange(0, 100000).Draw(t, "readerOff"))
	}
	return c
}

func runC(c CCase) (fails []failure, inconc string, facts map[string]bool) {
	gen.QuietLogs()
	facts = map[string]bool{}
	pbt.For(prop).Eval(1)
	cache.SetVerifyCrc(false)
	dir := ""
	if c.Disk {
		dir = pbt.TmpDir("c05c")
		defer os.RemoveAll(dir)
	}
	const lin = 7
	id := (&cache.Lineage{ID: lin}).RunID()
	maxSize := int64(-1)
	if c.MaxSegs > 0 {
		maxSize = int64(c.MaxSegs) * c.LogSize
	}
	ch := cache.Open(c.Disk, dir, c.LogSize, maxSize)
	defer ch.Close()
	gcStop := make(chan struct{})
	var gcWG sync.WaitGroup
	if c.Disk && c.MaxSegs > 0 {
		gcWG.Add(1)
		go func() {
			defer gcWG.Done()
			for {
				select {
				case <-gcStop:
					return
				case <-time.After(time.Millisecond):
					ch.Gc()
				}
			}
		}()
	}
	stopGc := func() {
		select {
		case <-gcStop:
		default:
			close(gcStop)
		}
		gcWG.Wait()
	}
	defer stopGc()
	if err := ch.C.SetRunId(id); err != nil {
		return nil, "SetRunId: " + err.Error(), facts
	}
	right := func() int64 { _, r := ch.C.GetOffsetRange(id); return r }

	// one writer generation: a pipe fed by a source goroutine from offset `from` on, until the pipe is closed
	type genr struct {
		w    syncer.AofChannelWriter
		pw   *io.PipeWriter
		done chan struct{}
	}
	var stopAll atomic.Bool
	startWriter := func(from int64) (*genr, error) {
		pr, pw := io.Pipe()
		w, err := ch.C.NewAofWritter(pr, from)
		if err != nil {
			pw.Close()
			return nil, err
		}
		w.Start()
		g := &genr{w: w, pw: pw, done: make(chan struct{})}
		go func() {
			defer close(g.done)
			off := from
			for k := 0; !stopAll.Load(); k++ {
				n := c.Chunks[k%len(c.Chunks)]
				if _, err := pw.Write(cache.Bytes(lin, off, int64(n))); err != nil {
					return
				}
				off += int64(n)
				if off-c.Start > 400000 || off-c.Start > 80*c.LogSize {
					return // enough (the disk reader needs >= 10 ms to step over each segment boundary)
				}
			}
		}()
		return g, nil
	}
	g, err := startWriter(c.Start)
	if err != nil {
		return nil, "first writer: " + err.Error(), facts
	}
	var pmu sync.Mutex
	var pumps []*cache.Pump
	defer func() {
		pmu.Lock()
		for _, p := range pumps {
			p.Close()
		}
		pmu.Unlock()
	}()
	verify := func(where string) {
		pmu.Lock()
		defer pmu.Unlock()
		for _, p := range pumps {
			if m := p.Verify(); m != "" {
				fails = append(fails, failure{"reader-delivered-other-bytes:concurrent", where + ": " + m})
			}
		}
	}
	waitGrow := func(target int64) bool {
		deadline := time.Now().Add(10 * time.Second)
		for right() < target {
			select {
			case <-g.done:
				// the source of this writer generation has produced everything it will
				if right() < target {
					return false
				}
			default:
			}
			if time.Now().After(deadline) {
				return false
			}
			time.Sleep(100 * time.Microsecond)
		}
		return true
	}
	// events ordered by the growth they wait for
	type ev struct {
		at  int
		rep bool
		idx int
	}
	var evs []ev
	acc := 0
	for i, r := range c.Replaces {
		acc += r
		evs = append(evs, ev{acc, true, i})
	}
	for i, r := range c.Readers {
		evs = append(evs, ev{r, false, i})
	}
	for i := 0; i < len(evs); i++ {
		for j := i + 1; j < len(evs); j++ {
			if evs[j].at < evs[i].at {
				evs[i], evs[j] = evs[j], evs[i]
			}
		}
	}
	capBytes := int64(400000)
	if 80*c.LogSize < capBytes {
		capBytes = 80 * c.LogSize
	}
	for _, e := range evs {
		// thresholds are folded into what the source produces at most
		if !waitGrow(c.Start + int64(e.at)%(capBytes*9/10)) {
			// the writer may legitimately be slower than the generated thresholds under load: carry on with what there is
			facts["growth-threshold-not-reached"] = true
		}
		if e.rep {
			// the connection to the source breaks: the writer is closed while it is appending; the input reconnects and
			// attaches a new writer at the position the cache reports
			g.w.Close()
			g.pw.Close()
			<-g.done
			at := right()
			if at < 0 {
				at = c.Start
			}
			ng, err := startWriter(at)
			if err != nil {
				fails = append(fails, failure{"writer-cannot-continue-at-reported-end", fmt.Sprintf("after closing the writer the cache reports right end %d, but a new writer there fails: %v", at, err)})
				stopAll.Store(true)
				return fails, "", facts
			}
			g = ng
			facts["writer-replaced-while-appending"] = true
		} else {
			l, r := ch.C.GetOffsetRange(id)
			if l < 0 || r < l {
				continue
			}
			x := l + int64(c.ROff[e.idx])%(r-l+1)
			if !ch.C.IsValidOffset(syncer.Offset{RunId: id, Offset: x}) {
				continue
			}
			rd, err := ch.C.NewReader(syncer.Offset{RunId: id, Offset: x})
			if err != nil {
				continue // judged on the quiescent cache below
			}
			if !rd.IsAof() {
				rd.Close()
				continue
			}
			pmu.Lock()
			pumps = append(pumps, cache.StartPump(rd, lin, x))
			pmu.Unlock()
			facts["reader-during-appends"] = true
		}
		verify("while running")
		if len(fails) > 0 {
			break
		}
	}
	// stop the source and the writer: the cache is quiescent from here on
	stopAll.Store(true)
	g.w.Close()
	g.pw.Close()
	<-g.done
	stopGc()
	time.Sleep(2 * time.Millisecond)
	verify("after the stop")
	if len(fails) > 0 {
		return fails, "", facts
	}
	L, R := ch.C.GetOffsetRange(id)
	if L < 0 || R <= L {
		return fails, "", facts
	}
	// fresh readers at a sample of valid offsets, all running at the same time
	offs := []int64{L, L + 1, R - 1, (L + R) / 2}
	for k := int64(1); L+k*c.LogSize < R && k <= 4; k++ {
		offs = append(offs, L+k*c.LogSize-1, L+k*c.LogSize, L+k*c.LogSize+1)
	}
	type fresh struct {
		x int64
		p *cache.Pump
	}
	var fr []fresh
	defer func() {
		for _, f := range fr {
			f.p.Close()
		}
	}()
	for _, x := range offs {
		if x < L || x >= R || !ch.C.IsValidOffset(syncer.Offset{RunId: id, Offset: x}) {
			continue
		}
		rd, err := ch.C.NewReader(syncer.Offset{RunId: id, Offset: x})
		if err != nil {
			fails = append(fails, failure{"valid-offset-not-readable:concurrent", fmt.Sprintf("quiescent cache [%d,%d]: offset %d is reported valid but a reader there fails: %v", L, R, x, err)})
			return fails, "", facts
		}
		if !rd.IsAof() {
			rd.Close()
			continue
		}
		fr = append(fr, fresh{x, cache.StartPump(rd, lin, x)})
	}
	// progress-based wait: the disk reader polls (10 ms per segment boundary), so a reader is given time as long as it moves; it
	// counts as stuck only after 4 s without a single new byte
	last := make([]int, len(fr))
	lastMove := make([]time.Time, len(fr))
	for i := range fr {
		last[i], lastMove[i] = -1, time.Now()
	}
	begin := time.Now()
	for {
		pending := false
		for i, f := range fr {
			n := f.p.Len()
			if n >= int(R-f.x) {
				continue
			}
			if n != last[i] {
				last[i], lastMove[i] = n, time.Now()
			}
			if time.Since(lastMove[i]) > 4*time.Second {
				if msg := f.p.Verify(); msg != "" {
					fails = append(fails, failure{"reader-delivered-other-bytes:concurrent", "fresh reader on the quiescent cache: " + msg})
				}
				fails = append(fails, failure{"valid-range-not-readable:concurrent", fmt.Sprintf("quiescent cache reports [%d,%d] (writer closed, nothing running); a fresh reader at %d delivers %d of %d bytes and then nothing for 4 s", L, R, f.x, n, R-f.x)})
				return fails, "", facts
			}
			pending = true
		}
		if !pending {
			break
		}
		if time.Since(begin) > 90*time.Second {
			return fails, "fresh readers were still delivering after 90 s", facts
		}
		time.Sleep(time.Millisecond)
	}
	for _, f := range fr {
		if msg := f.p.Verify(); msg != "" {
			fails = append(fails, failure{"reader-delivered-other-bytes:concurrent", "fresh reader on the quiescent cache: " + msg})
			break
		}
	}
	return fails, "", facts
}

func checkC(t pbt.TB, c CCase) {
	st := pbt.For(prop)
	st.Case()
	cj := pbt.JSON(c)
	fails, inconc, facts := runC(c)
	for k, v := range facts {
		st.ClassIf(v, "conc:"+k)
	}
	st.ClassIf(c.Disk, "conc:disk")
	st.ClassIf(!c.Disk, "conc:memory")
	st.ClassIf(c.MaxSegs > 0, "conc:size-limited")
	if inconc != "" && len(fails) == 0 {
		st.Inconc(inconc)
		return
	}
	if facts["writer-replaced-while-appending"] && facts["reader-during-appends"] {
		st.NonTrivial(cj)
	} else {
		st.Sample(cj)
	}
	for _, f := range fails {
		st.Fail(t, f.sig, f.msg, cj, nil)
	}
}

func TestC05Concurrent(t *testing.T) {
	rapid.Check(t, func(t *rapid.T) { checkC(t, genCCase(t)) })
}

func TestC05ConcurrentReplay(t *testing.T) {
	if os.Getenv("VERIF_REPLAY") == "" {
		t.Skip("no VERIF_REPLAY")
	}
	v, err := pbt.LoadReplay()
	if err != nil {
		t.Fatal(err)
	}
	var c CCase
	if err := json.Unmarshal(v.Case, &c); err != nil || !c.Conc {
		t.Skip("no such case type")
	}
	for i := 0; i < 20; i++ {
		checkC(t, c)
	}
}
