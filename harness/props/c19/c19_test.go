// C19 — cluster replay reaches each key's slot owner and keeps per-key order.
package c19

import (
	"bufio"
	"context"
	"encoding/json"
	"errors"
	"fmt"
	"io"
	"os"
	"sort"
	"strconv"
	"strings"
	"sync"
	"sync/atomic"
	"testing"
	"time"

	"pgregory.net/rapid"

	"github.com/mgtv-tech/redis-GunYu/config"
	"github.com/mgtv-tech/redis-GunYu/syncer"

	"verifharness/fake"
	"verifharness/gen"
	"verifharness/pbt"
	"verifharness/ref/hashslot"
	"verifharness/ref/resp"
)

const prop = "C19"

func TestMain(m *testing.M) { pbt.Main(m) }

var keyPool = []string{"a", "b", "c", "k1", "k2", "k3", "user:1", "user:2", "{t}x", "{t}y", "{u}x", "{u}y", "foo", "bar", "z9"}

type Cmd struct {
	Keys []int `json:"keys"` // indexes into keyPool: 1 key = SET, several (same slot) = MSET
	// Custom: a command the tool's key tables do not know (VERIFTOUCH key value; the double logs it as a generic write): the cluster client asks a
	// node for its keys (COMMAND GETKEYS) while the batch is being built. Not part of any key's judged sequence.
	Custom bool `json:"custom,omitempty"`
}

type Event struct {
	AfterReq int    `json:"afterReq"` // fires once the cluster has processed this many requests in total
	Kind     string `json:"kind"`     // start | finish | move (finish without MIGRATING state) | down (node Dst stops listening and drops its connections)
	Key      int    `json:"key"`      // the slot of this pool key migrates
	Dst      int    `json:"dst"`
	Moved    []int  `json:"moved"` // start: pool keys of that slot that already live at the destination
}

type Case struct {
	Nodes    int     `json:"nodes"`
	Bounds   []int   `json:"bounds"`
	Txn      bool    `json:"txn"`
	Pipeline bool    `json:"pipeline"`
	Batch    uint    `json:"batch"`
	Cmds     []Cmd   `json:"cmds"`
	Events   []Event `json:"events"`
	DelayUs  []int   `json:"delayUs"` // per node request latency
	// latency of CLUSTER SLOTS (the client's asynchronous topology refresh) and of COMMAND GETKEYS (asked while a batch is being built)
	SlotsDelayUs  int `json:"slotsDelayUs,omitempty"`
	LookupDelayUs int `json:"lookupDelayUs,omitempty"`
	// SlowLookup: scripted history in which the topology refresh that follows a MOVED reply lands while the next batch is being built
	SlowLookup bool `json:"slowLookup,omitempty"`
	// Rejoin: scripted history in which a node loses all its slots and gets one back
	Rejoin bool `json:"rejoin,omitempty"`
	// OwnerDown: scripted history in which a slot is handed to a node that cannot be reached (it went down right after the hand-over): the
	// old owner answers MOVED naming an address that refuses connections
	OwnerDown bool `json:"ownerDown,omitempty"`
}

func slotOf(i int) int { return int(hashslot.Slot([]byte(keyPool[i]))) }

func genCase(t *rapid.T) Case {
	c := Case{Nodes: rapid.IntRange(2, 4).Draw(t, "nodes")}
	bs := rapid.SliceOfNDistinct(rapid.IntRange(1, 16383), c.Nodes-1, c.Nodes-1, rapid.ID[int]).Draw(t, "bounds")
	sort.Ints(bs)
	c.Bounds = bs
	c.Txn = rapid.IntRange(0, 3).Draw(t, "txn") == 0
	c.Pipeline = rapid.Bool().Draw(t, "pipeline")
	c.Batch = uint(rapid.SampledFrom([]int{1, 2, 4, 8, 50}).Draw(t, "batch"))
	n := rapid.IntRange(3, 40).Draw(t, "ncmds")
	for i := 0; i < n; i++ {
		k := rapid.IntRange(0, len(keyPool)-1).Draw(t, "key")
		cmd := Cmd{Keys: []int{k}}
		if rapid.IntRange(0, 5).Draw(t, "mset") == 0 {
			for j := range keyPool {
				if j != k && slotOf(j) == slotOf(k) {
					cmd.Keys = append(cmd.Keys, j)
				}
			}
		}
		c.Cmds = append(c.Cmds, cmd)
	}
	ne := rapid.IntRange(0, 4).Draw(t, "nevents")
	for i := 0; i < ne; i++ {
		e := Event{AfterReq: rapid.IntRange(0, 3*n).Draw(t, "afterReq"), Key: rapid.IntRange(0, len(keyPool)-1).Draw(t, "ekey"), Dst: rapid.IntRange(0, c.Nodes-1).Draw(t, "dst")}
		e.Kind = rapid.SampledFrom([]string{"start", "start", "finish", "move"}).Draw(t, "ekind")
		if e.Kind == "start" {
			for j := range keyPool {
				if slotOf(j) == slotOf(e.Key) && rapid.Bool().Draw(t, "moved") {
					e.Moved = append(e.Moved, j)
				}
			}
		}
		c.Events = append(c.Events, e)
	}
	for i := 0; i < c.Nodes; i++ {
		c.DelayUs = append(c.DelayUs, rapid.SampledFrom([]int{0, 0, 200, 1500, 5000}).Draw(t, "delay"))
	}
	if rapid.IntRange(0, 5).Draw(t, "nodeLeavesAndRejoins") == 0 {
		// a node that owns a single slot: a slot migrates to it (redirections name it), then everything it owns migrates away (it drops
		// out of CLUSTER SLOTS), then a slot comes back to it (redirections name it again)
		ka := rapid.IntRange(0, len(keyPool)-1).Draw(t, "rejoinKeyA")
		kb := rapid.IntRange(0, len(keyPool)-1).Draw(t, "rejoinKeyB")
		if slotOf(ka) != slotOf(kb) && slotOf(kb) > 0 && slotOf(kb) < 16383 {
			c.Nodes, c.Bounds = 3, []int{slotOf(kb), slotOf(kb) + 1}
			c.Txn = false
			c.Batch = uint(rapid.SampledFrom([]int{1, 2, 4}).Draw(t, "rejoinBatch"))
			home := 0
			if slotOf(ka) > slotOf(kb) {
				home = 2
			}
			c.Cmds = nil
			kc := rapid.IntRange(0, len(keyPool)-1).Draw(t, "rejoinKeyC")
			for i, n := 0, rapid.IntRange(30, 48).Draw(t, "rejoinCmds"); i < n; i++ {
				c.Cmds = append(c.Cmds, Cmd{Keys: []int{[]int{ka, ka, kb, kc}[rapid.IntRange(0, 3).Draw(t, "rejoinWhich")]}})
			}
			r1 := rapid.IntRange(3, 9).Draw(t, "r1")
			r2 := r1 + rapid.IntRange(6, 14).Draw(t, "r2")
			r3 := r2 + rapid.IntRange(8, 16).Draw(t, "r3")
			c.Events = []Event{
				{AfterReq: r1, Kind: "move", Key: ka, Dst: 1},
				{AfterReq: r2, Kind: "move", Key: ka, Dst: home},
				{AfterReq: r2, Kind: "move", Key: kb, Dst: home},
				{AfterReq: r3, Kind: "move", Key: ka, Dst: 1},
			}
			c.DelayUs = []int{0, 0, 0}
			c.Rejoin = true
		}
	}
	if !c.Rejoin && rapid.IntRange(0, 7).Draw(t, "newOwnerUnreachable") == 0 {
		// node 1 owns one slot that the stream never writes to (so that the client knows the node and nothing else is sent to it); the slot of
		// ka is handed to node 1 at the moment node 1 goes down. Every later write on ka is answered MOVED <node 1> by its old owner.
		ka := rapid.IntRange(0, len(keyPool)-1).Draw(t, "downKeyA")
		kb := rapid.IntRange(0, len(keyPool)-1).Draw(t, "downKeyB")
		if slotOf(ka) != slotOf(kb) && slotOf(kb) > 0 && slotOf(kb) < 16383 {
			c.Nodes, c.Bounds = 3, []int{slotOf(kb), slotOf(kb) + 1}
			c.Txn = false
			var pool []int
			for j := range keyPool {
				if slotOf(j) != slotOf(kb) {
					pool = append(pool, j)
				}
			}
			c.Cmds = nil
			for i, n := 0, rapid.IntRange(6, 24).Draw(t, "downCmds"); i < n; i++ {
				k := ka
				if rapid.IntRange(0, 2).Draw(t, "downOther") == 0 {
					k = rapid.SampledFrom(pool).Draw(t, "downKey")
				}
				c.Cmds = append(c.Cmds, Cmd{Keys: []int{k}})
			}
			c.Cmds = append(c.Cmds, Cmd{Keys: []int{ka}}) // at least one write on ka behind the hand-over
			r1 := rapid.IntRange(0, len(c.Cmds)-2).Draw(t, "downAt")
			c.Events = []Event{
				{AfterReq: r1, Kind: "down", Dst: 1},
				{AfterReq: r1, Kind: "move", Key: ka, Dst: 1},
			}
			c.DelayUs = []int{0, 0, 0}
			c.OwnerDown = true
		}
	}
	if !c.Rejoin && !c.OwnerDown && rapid.IntRange(0, 7).Draw(t, "refreshWhileBatchIsBuilt") == 0 {
		// blocking sending; the stream alternates writes on ka with a command the key tables do not know, so that building a batch takes a
		// COMMAND GETKEYS round trip between two writes on ka; the slot of ka changes hands once; the topology refresh that the first MOVED
		// reply triggers (asynchronous, CLUSTER SLOTS is slow) lands while the next batch is being built
		ka := rapid.IntRange(0, len(keyPool)-1).Draw(t, "lookupKeyA")
		owner := 0
		for owner < len(c.Bounds) && slotOf(ka) >= c.Bounds[owner] {
			owner++
		}
		dst := (owner + rapid.IntRange(1, c.Nodes-1).Draw(t, "lookupDst")) % c.Nodes
		c.Txn, c.Pipeline = false, false
		c.Batch = uint(rapid.SampledFrom([]int{4, 8}).Draw(t, "lookupBatch"))
		c.Cmds = nil
		for i, n := 0, rapid.IntRange(6, 12).Draw(t, "lookupRounds"); i < n; i++ {
			c.Cmds = append(c.Cmds, Cmd{Keys: []int{ka}})
			c.Cmds = append(c.Cmds, Cmd{Keys: []int{rapid.IntRange(0, len(keyPool)-1).Draw(t, "lookupKeyX")}, Custom: true})
			if rapid.IntRange(0, 3).Draw(t, "lookupExtra") == 0 {
				c.Cmds = append(c.Cmds, Cmd{Keys: []int{rapid.IntRange(0, len(keyPool)-1).Draw(t, "lookupKeyY")}})
			}
		}
		c.Cmds = append(c.Cmds, Cmd{Keys: []int{ka}})
		c.Events = []Event{{AfterReq: rapid.IntRange(2, len(c.Cmds)).Draw(t, "lookupMoveAt"), Kind: "move", Key: ka, Dst: dst}}
		c.DelayUs = make([]int, c.Nodes)
		c.SlotsDelayUs = rapid.SampledFrom([]int{1000, 2000, 3000}).Draw(t, "slotsDelay")
		c.LookupDelayUs = rapid.SampledFrom([]int{4000, 6000}).Draw(t, "lookupDelay")
		c.SlowLookup = true
	}
	return c
}

type failure struct{ sig, msg string }

type rdr struct {
	r *bufio.Reader
}

func run(c Case) (fs []failure, inconc string, facts map[string]bool, hist any) {
	gen.QuietLogs()
	facts = map[string]bool{}
	pbt.For(prop).Eval(1)
	cs := fake.NewClusterSet(c.Nodes)
	defer cs.Close()
	cs.SetLayout(c.Bounds)
	for i, n := range cs.Nodes {
		n.GenericWrites = true
		if d := c.DelayUs[i]; d > 0 || c.SlotsDelayUs > 0 || c.LookupDelayUs > 0 {
			dd := time.Duration(d) * time.Microsecond
			n.Delay = func(cmd string, args [][]byte) time.Duration {
				switch cmd {
				case "ping":
					return 0
				case "cluster":
					return time.Duration(c.SlotsDelayUs) * time.Microsecond
				case "command":
					return time.Duration(c.LookupDelayUs) * time.Microsecond
				}
				return dd
			}
		}
	}
	// migration schedule: driven by the cluster-wide request counter
	var fired atomic.Int64
	evs := append([]Event(nil), c.Events...)
	sort.SliceStable(evs, func(a, b int) bool { return evs[a].AfterReq < evs[b].AfterReq })
	var applyMu sync.Mutex
	apply := func() {
		// called from every node's request hook (each under its own lock): one at a time
		applyMu.Lock()
		defer applyMu.Unlock()
		n := int(cs.Seq.Load())
		for int(fired.Load()) < len(evs) && evs[fired.Load()].AfterReq <= n {
			e := evs[fired.Load()]
			fired.Add(1)
			slot := slotOf(e.Key)
			switch e.Kind {
			case "down":
				// asynchronously: Close takes the node's lock, and this hook may be running under it
				go cs.Nodes[e.Dst].Close()
			case "start":
				var mk []string
				for _, j := range e.Moved {
					mk = append(mk, keyPool[j])
				}
				cs.StartMigration(slot, e.Dst, mk)
			default:
				cs.FinishMigration(slot, e.Dst)
			}
		}
	}
	for _, n := range cs.Nodes {
		n.OnRequest = func(seq int, cmd string, args [][]byte) { apply() }
	}

	// the stream: SELECT 0, then the commands; every value is unique so that order per key is observable
	var stream []byte
	var ends []int
	stream = append(stream, resp.CmdS("SELECT", "0")...)
	ends = append(ends, len(stream))
	perKey := map[string][]string{}
	total := 0
	for i, cm := range c.Cmds {
		v := fmt.Sprintf("v%d", i)
		if cm.Custom {
			stream = append(stream, resp.CmdS("VERIFTOUCH", keyPool[cm.Keys[0]], v)...)
		} else if len(cm.Keys) == 1 {
			k := keyPool[cm.Keys[0]]
			stream = append(stream, resp.CmdS("SET", k, v)...)
			perKey[k] = append(perKey[k], v)
		} else {
			args := []string{"MSET"}
			for _, j := range cm.Keys {
				args = append(args, keyPool[j], v)
				perKey[keyPool[j]] = append(perKey[keyPool[j]], v)
			}
			stream = append(stream, resp.CmdS(args...)...)
		}
		total++
		ends = append(ends, len(stream))
	}

	oc := gen.OutputConfig(gen.OutCfg{BatchCmdCount: c.Batch, BatchBufferSize: 65535, BatchTickerMs: 5, CpTickerMs: 20, KeepaliveMs: 3000, Txn: c.Txn, Pipeline: c.Pipeline, Resume: true, TargetDb: -1}, cs.Nodes[0].Addr(), "5555555555555555555555555555555555555555")
	oc.Redis = config.RedisConfig{Addresses: cs.Addrs(), Type: config.RedisTypeCluster, Otype: config.RedisTypeCluster, Version: "7.2.0",
		ClusterOptions: &config.RedisClusterOptions{HandleMoveErr: true, HandleAskErr: true}}
	ro := syncer.NewRedisOutput(oc)
	pr, pw := io.Pipe()
	ctx, cancel := context.WithCancel(context.Background())
	defer cancel()
	done := make(chan error, 1)
	go func() {
		done <- ro.Send(ctx, &gen.Reader{R: bufio.NewReaderSize(pr, 4096), LeftV: 1000, RunID: oc.RunId, Aof: true, SizeV: -1})
	}()
	go func() {
		pos := 0
		for _, e := range ends {
			if _, err := pw.Write(stream[pos:e]); err != nil {
				return
			}
			pos = e
		}
	}()
	executed := func() int {
		n := 0
		for _, nd := range cs.Nodes {
			lg, _ := nd.SnapshotLog()
			for _, e := range lg {
				if e.Cmd == "set" || e.Cmd == "mset" || e.Cmd == "veriftouch" {
					n++
				}
			}
		}
		return n
	}
	var sendErr error
	returned := false
	deadline := time.Now().Add(15 * time.Second)
	last, lastChange := -1, time.Now()
	for {
		select {
		case sendErr = <-done:
			returned = true
		default:
		}
		if returned {
			break
		}
		n := executed()
		if n != last {
			last, lastChange = n, time.Now()
		}
		if n >= total && time.Since(lastChange) > 80*time.Millisecond {
			break
		}
		if time.Since(lastChange) > 4*time.Second || time.Now().After(deadline) {
			break
		}
		time.Sleep(2 * time.Millisecond)
	}
	cancel()
	if !returned {
		select {
		case sendErr = <-done:
		case <-time.After(15 * time.Second):
			pw.Close()
			return nil, "Send did not return within 15 s after the stop", facts, nil
		}
	}
	pw.Close() // only now: an EOF of the stream must not be mistaken for an error the tool reported
	for _, nd := range cs.Nodes {
		nd.WaitIdle(time.Second)
	}
	// the global history
	type ex struct {
		seq  int
		node string
		cmd  string
		args [][]byte
	}
	var all []ex
	redirects, tryagains := 0, 0
	redirected := map[string]bool{}
	tryagained := map[string]bool{}
	// the node each write was sent to FIRST (before any redirection handling), from the request logs of all nodes in cluster-wide order
	type firstReq struct {
		seq  int
		node string
	}
	first := map[string]firstReq{}
	sawFirst := func(kv string, seq int, node string) {
		if f, ok := first[kv]; !ok || seq < f.seq {
			first[kv] = firstReq{seq, node}
		}
	}
	var reqLog []string
	for _, nd := range cs.Nodes {
		lg, rq := nd.SnapshotLog()
		for _, e := range lg {
			if e.Cmd == "set" || e.Cmd == "mset" {
				all = append(all, ex{e.Seq, e.Node, e.Cmd, e.Args})
			}
		}
		for _, r := range rq {
			if r.Cmd == "set" && len(r.Args) >= 2 {
				sawFirst(string(r.Args[0])+"\x00"+string(r.Args[1]), r.Seq, nd.Addr())
			} else if r.Cmd == "mset" {
				for i := 0; i+1 < len(r.Args); i += 2 {
					sawFirst(string(r.Args[i])+"\x00"+string(r.Args[i+1]), r.Seq, nd.Addr())
				}
			}
			if strings.HasPrefix(r.Reply, "-MOVED") || strings.HasPrefix(r.Reply, "-ASK") {
				redirects++
				// which writes were answered with a redirection (and therefore executed again by the tool's redirection handling)
				if r.Cmd == "set" && len(r.Args) >= 2 {
					redirected[string(r.Args[0])+"\x00"+string(r.Args[1])] = true
				} else if r.Cmd == "mset" {
					for i := 0; i+1 < len(r.Args); i += 2 {
						redirected[string(r.Args[i])+"\x00"+string(r.Args[i+1])] = true
					}
				}
			}
			if strings.HasPrefix(r.Reply, "-TRYAGAIN") {
				tryagains++
				if r.Cmd == "mset" {
					for i := 0; i+1 < len(r.Args); i += 2 {
						tryagained[string(r.Args[i])+"\x00"+string(r.Args[i+1])] = true
					}
				}
			}
			if r.Cmd == "hset" && !strings.HasPrefix(r.Reply, "-") {
				continue // checkpoint writes: they would push the part of the history that matters out of the stored tail
			}
			reqLog = append(reqLog, fmt.Sprintf("%06d %s %s %v -> %s", r.Seq, nd.Addr(), r.Cmd, r.ArgsS, r.Reply))
		}
	}
	sort.Slice(all, func(a, b int) bool { return all[a].seq < all[b].seq })
	sort.Strings(reqLog)
	if len(reqLog) > 160 {
		reqLog = reqLog[len(reqLog)-160:]
	}
	hist = map[string]any{"send_err": fmt.Sprint(sendErr), "events": cs.Events, "requests": reqLog}
	reported := sendErr != nil && !errors.Is(sendErr, context.Canceled)
	observed := map[string][]string{}
	for _, e := range all {
		if e.cmd == "set" {
			observed[string(e.args[0])] = append(observed[string(e.args[0])], string(e.args[1]))
		} else {
			for i := 0; i+1 < len(e.args); i += 2 {
				observed[string(e.args[i])] = append(observed[string(e.args[i])], string(e.args[i+1]))
			}
		}
	}
	for k, src := range perKey {
		idx := map[string]int{}
		for i, v := range src {
			idx[v] = i
		}
		obs := observed[k]
		prev := -1
		inverted := false
		for i, v := range obs {
			j, ok := idx[v]
			if !ok {
				fs = append(fs, failure{"invented-value", fmt.Sprintf("key %q received value %q which the source never wrote", k, v)})
				break
			}
			if j > prev+1 {
				sig := "per-key-order-skips"
				if reported && tryagains > 0 && tryagained[k+"\x00"+src[prev+1]] {
					// known finding (consulted first: it is identified by the OVERTAKEN write, whatever happened to the overtaking one): a
					// multi-key command answered TRYAGAIN - directly, or at the end of a chain of redirections (ASK to the importing node,
					// MOVED back because the migration was re-targeted, TRYAGAIN at the owner) - is an error reply that Send reports at the end
					// of the batch, while later commands of the same batch on a key of that command are executed, directly or through their
					// own redirections. A cluster batch is flushed to a node as plain commands in the transactional configuration too
					// (thorough tier, 1 case in 12 404), so the rule does not depend on the mode
					sig = "per-key-order-skips:tryagain-in-batch"
				} else if redirects > 0 && !c.Txn {
					late := false
					for _, w := range obs[i+1:] {
						if w == src[prev+1] {
							late = true
						}
					}
					switch {
					case !late && !reported:
						// the overtaken write was answered with a redirection, never executed anywhere, and Send reported nothing
						sig = "redirected-write-never-executed"
					case redirected[k+"\x00"+v] && redirected[k+"\x00"+src[prev+1]]:
						// the write that overtook was itself answered with a redirection, i.e. both writes went through the tool's redirection
						// handling, which re-executes redirected commands one by one in reply order (and the commands of one batch on one slot
						// are in one node's replies, a786312)
						sig = "per-key-order-skips:redirected-commands-reordered"
					case !c.Pipeline && first[k+"\x00"+v].node != first[k+"\x00"+src[prev+1]].node:
						// blocking sending: a batch, redirections included, is complete before the next one is built, so the two writes were in
						// ONE batch, and they were sent to two different nodes (the slot table was refreshed between their Put calls; the node
						// batches of a batch are handled concurrently). A batch keeps the commands of a slot on one node since a786312
						sig = "per-key-order-skips:same-batch-two-nodes"
					default:
						// known finding: a command answered MOVED / ASK is executed again at the indicated node AFTER later commands on the same
						// key were executed directly - (a) pipelined sending: later batches, dispatched once the slot table was refreshed, went
						// straight to the new owner; (b) any sending mode: later commands of the same flush to the SAME node, which became the
						// owner (again) between two requests of that flush
						sig = "per-key-order-skips:redirect-reexecution"
					}
				} else if tryagains > 0 && tryagained[k+"\x00"+src[prev+1]] {
					// known finding: a multi-key command answered TRYAGAIN (one of its keys already migrated) while a later single-key
					// command of the same pipelined batch on the key that has not moved yet is executed by the same node. A cluster batch is
					// flushed to a node as plain commands in the transactional configuration too (thorough tier, 1 case in 12 404), so the
					// rule does not depend on it: it is the OVERTAKEN write that must have been answered TRYAGAIN
					sig = "per-key-order-skips:tryagain-in-batch"
				}
				fs = append(fs, failure{sig, fmt.Sprintf("key %q: the target applied %v; write #%d (%s) took effect although #%d (%s) had not (source order %v)", k, obs, j, v, prev+1, src[prev+1], src)})
				inverted = true
				break
			}
			if c.Txn && j <= prev {
				fs = append(fs, failure{"executed-twice-in-transactional-mode", fmt.Sprintf("key %q: write %s executed again at position %d (%v)", k, v, i, obs)})
				break
			}
			if j > prev {
				prev = j
			}
		}
		if !reported && !inverted && prev != len(src)-1 {
			fs = append(fs, failure{"silent-loss", fmt.Sprintf("key %q: the target applied %v of the source's %v and Send reported no error (%v)", k, obs, src, sendErr)})
		}
	}
	facts["redirect"] = redirects > 0
	facts["reported-error"] = reported
	nodesHit := map[string]bool{}
	for _, e := range all {
		nodesHit[e.node] = true
	}
	facts["spans-nodes"] = len(nodesHit) >= 2
	return fs, inconc, facts, hist
}

func check(t pbt.TB, c Case) {
	st := pbt.For(prop)
	st.Case()
	cj := pbt.JSON(c)
	fs, inconc, facts, hist := run(c)
	if inconc != "" && len(fs) == 0 {
		st.Inconc(inconc)
		return
	}
	for k, v := range facts {
		st.ClassIf(v, k)
	}
	st.ClassIf(c.Txn, "txn")
	st.ClassIf(c.Pipeline, "pipeline")
	st.ClassIf(c.Rejoin, "node-leaves-and-rejoins")
	st.ClassIf(c.OwnerDown, "new-owner-unreachable")
	st.ClassIf(c.SlowLookup, "refresh-lands-while-batch-is-built")
	if facts["redirect"] && facts["spans-nodes"] {
		st.NonTrivial(cj)
	} else {
		st.Sample(cj)
	}
	for _, f := range fs {
		st.Fail(t, f.sig, f.msg, cj, hist)
	}
}

func TestC19(t *testing.T) {
	rapid.Check(t, func(t *rapid.T) { check(t, genCase(t)) })
}

func TestC19Replay(t *testing.T) {
	if os.Getenv("VERIF_REPLAY") == "" {
		t.Skip("no VERIF_REPLAY")
	}
	v, err := pbt.LoadReplay()
	if err != nil {
		t.Fatal(err)
	}
	var c Case
	if err := json.Unmarshal(v.Case, &c); err != nil {
		t.Fatal(err)
	}
	for i := 0; i < 5; i++ {
		check(t, c)
	}
}

var _ = strconv.Itoa
