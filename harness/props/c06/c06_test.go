// C06 — each source (re)connection continues the stream gap-free or takes a snapshot.
package c06

import (
	"bufio"
	"context"
	"encoding/json"
	"fmt"
	"io"
	"os"
	"path/filepath"
	"sync"
	"testing"
	"time"

	"pgregory.net/rapid"

	"github.com/mgtv-tech/redis-GunYu/config"
	"github.com/mgtv-tech/redis-GunYu/syncer"

	"verifharness/cache"
	"verifharness/fake"
	"verifharness/gen"
	"verifharness/pbt"
)

const prop = "C06"

func TestMain(m *testing.M) {
	// the input code reads a few globals (snapshot limiter, listen port): load a minimal configuration once
	dir, _ := os.MkdirTemp("", "c06cfg")
	p := filepath.Join(dir, "cfg.yaml")
	os.WriteFile(p, []byte("input:\n  redis:\n    addresses: [127.0.0.1:1]\noutput:\n  redis:\n    addresses: [127.0.0.1:2]\nchannel:\n  type: memory\n"), 0o644)
	if err := config.InitSyncerConfig(p); err != nil {
		fmt.Println("config:", err)
		os.Exit(2)
	}
	os.RemoveAll(dir)
	pbt.Main(m)
}

type Case struct {
	Disk bool `json:"disk"`
	// source
	SrcKind string `json:"srcKind"` // same | failover | brandnew
	Fork    int64  `json:"fork"`    // failover: bytes of the previous history that the new one keeps (switch offset)
	Master  int64  `json:"master"`  // master_repl_offset
	Backlog int64  `json:"backlog"` // first byte number held by the backlog (1-based), 1..master+1
	Extra   int64  `json:"extra"`   // bytes the master produces while the replica is attached
	// what the target remembers
	OutKind string `json:"outKind"` // none | cur | prev | unknown
	OutOff  int64  `json:"outOff"`
	// what the cache holds
	CacheKind string `json:"cacheKind"` // empty | cur | prev | other
	Snapshot  bool   `json:"snapshot"`
	CLeft     int64  `json:"cleft"`
	CRight    int64  `json:"cright"`
	// SetRunIdFails: the target is unreachable for the first n run-id updates (the attempt ends there; the tool reconnects 2 s later)
	SetRunIdFails int `json:"setRunIdFails,omitempty"`
}

func genCase(t *rapid.T) Case {
	c := Case{Disk: rapid.Bool().Draw(t, "disk")}
	c.SrcKind = rapid.SampledFrom([]string{"same", "same", "failover", "failover", "brandnew"}).Draw(t, "srcKind")
	c.Master = rapid.Int64Range(200, 3000).Draw(t, "master")
	c.Fork = rapid.Int64Range(50, c.Master).Draw(t, "fork")
	c.Backlog = rapid.OneOf(rapid.Just(int64(1)), rapid.Int64Range(1, c.Master+1)).Draw(t, "backlog")
	c.Extra = rapid.SampledFrom([]int64{40, 300}).Draw(t, "extra") // the master keeps producing while a replica is attached
	c.OutKind = rapid.SampledFrom([]string{"none", "cur", "cur", "prev", "prev", "unknown"}).Draw(t, "outKind")
	if c.SrcKind == "same" && c.OutKind == "prev" {
		c.OutKind = "cur"
	}
	pos := func(label string) int64 {
		return rapid.OneOf(rapid.Int64Range(1, c.Master), rapid.SampledFrom([]int64{c.Fork - 1, c.Fork, c.Fork + 1, c.Backlog - 2, c.Backlog - 1, c.Backlog, c.Master - 1, c.Master, c.Master + 5})).Draw(t, label)
	}
	c.OutOff = pos("outOff")
	if c.OutOff < 1 {
		c.OutOff = 1
	}
	c.CacheKind = rapid.SampledFrom([]string{"empty", "cur", "cur", "prev", "other"}).Draw(t, "cacheKind")
	if c.SrcKind == "same" && c.CacheKind == "prev" {
		c.CacheKind = "cur"
	}
	c.Snapshot = rapid.Bool().Draw(t, "snapshot")
	a, b := pos("c1"), pos("c2")
	if a > b {
		a, b = b, a
	}
	if a < 1 {
		a = 1
	}
	// the cache can only hold what the source had produced
	if b > c.Master {
		b = c.Master
	}
	if c.CacheKind == "prev" && b > c.Fork+40 {
		b = c.Fork + 40 // the old master may have produced a little more than the new one took over
	}
	if a > b {
		a = b
	}
	c.CLeft, c.CRight = a, b
	if rapid.IntRange(0, 13).Draw(t, "setRunIdFails") == 0 {
		c.SetRunIdFails = 1
		if rapid.Bool().Draw(t, "backlogCoversCache") && c.CRight >= 1 && c.CRight < c.Master {
			// the source's backlog reaches back to where the cache ends, so a PSYNC from there would be granted
			c.Backlog = rapid.Int64Range(1, c.CRight+1).Draw(t, "backlog2")
		}
	}
	return c
}

// sendRec is one Output.Send call as the stub saw it.
type sendRec struct {
	Aof   bool   `json:"aof"`
	Left  int64  `json:"left"`
	RunID string `json:"runid"`
	Size  int64  `json:"size"`
	Bytes []byte `json:"-"`
	N     int    `json:"n"`
}

// stubOutput plays the target side: it remembers a position, hands it out, and adopts the snapshot offset after a snapshot was consumed.
type stubOutput struct {
	mu           sync.Mutex
	runID        string
	offset       int64
	has          bool
	sends        []*sendRec
	setIDs       []string
	enough       chan struct{}
	once         sync.Once
	want         int
	failSetRunId int
	known        map[string]bool // replication ids the source reports (current, and previous after a failover)
}

func (o *stubOutput) StartPoint(ctx context.Context, ids []string) (syncer.StartPoint, error) {
	o.mu.Lock()
	defer o.mu.Unlock()
	if !o.has {
		return syncer.StartPoint{RunId: "?", Offset: -1}, nil
	}
	for _, id := range ids {
		if id == o.runID {
			return syncer.StartPoint{RunId: o.runID, Offset: o.offset}, nil
		}
	}
	// the position belongs to an id the source does not report: RedisOutput looks fields up by the reported ids and finds nothing
	return syncer.StartPoint{RunId: "?", Offset: -1}, nil
}

func (o *stubOutput) SetRunId(ctx context.Context, id string) error {
	o.mu.Lock()
	defer o.mu.Unlock()
	o.setIDs = append(o.setIDs, id)
	if o.failSetRunId > 0 {
		o.failSetRunId--
		return fmt.Errorf("dial tcp: connection refused (injected: target unreachable)")
	}
	if o.has && o.runID != id && o.known[o.runID] {
		// RedisOutput.SetRunId -> UpdateCheckpoint(ids = [new, the id the output was created for]) re-labels a position stored under an
		// id of THIS source; a position under an id the source never reported is not found by that lookup and stays as it is
		o.runID = id
	}
	return nil
}

func (o *stubOutput) Close() {}

func (o *stubOutput) Send(ctx context.Context, r syncer.ChannelReader) error {
	rec := &sendRec{Aof: r.IsAof(), Left: r.Left(), RunID: r.RunId(), Size: r.Size()}
	o.mu.Lock()
	o.sends = append(o.sends, rec)
	o.mu.Unlock()
	buf := make([]byte, 4096)
	if !rec.Aof {
		n, err := io.ReadFull(bufio.NewReader(r.IoReader()), make([]byte, 0))
		_ = n
		_ = err
		got := make([]byte, 0, rec.Size)
		for int64(len(got)) < rec.Size {
			k, err := r.IoReader().Read(buf)
			got = append(got, buf[:k]...)
			if err != nil {
				break
			}
		}
		o.mu.Lock()
		rec.Bytes, rec.N = got, len(got)
		if int64(len(got)) == rec.Size {
			o.runID, o.offset, o.has = rec.RunID, rec.Left, true // what sendRdb's setCheckpoint does
		}
		o.mu.Unlock()
		if int64(len(got)) != rec.Size {
			return fmt.Errorf("snapshot cut short: %d of %d", len(got), rec.Size)
		}
		return nil
	}
	done := make(chan struct{})
	go func() {
		defer close(done)
		for {
			k, err := r.IoReader().Read(buf)
			o.mu.Lock()
			rec.Bytes = append(rec.Bytes, buf[:k]...)
			rec.N = len(rec.Bytes)
			if rec.N >= o.want {
				o.once.Do(func() { close(o.enough) })
			}
			o.mu.Unlock()
			if err != nil {
				return
			}
		}
	}()
	select {
	case <-ctx.Done():
	case <-done:
	}
	return ctx.Err()
}

type failure struct{ sig, msg string }

func run(c Case) (fs []failure, inconc string, facts map[string]bool, hist any) {
	gen.QuietLogs()
	facts = map[string]bool{}
	pbt.For(prop).Eval(1)
	cache.SetVerifyCrc(false)
	old := &cache.Lineage{ID: 1}
	cur := old
	switch c.SrcKind {
	case "failover":
		cur = &cache.Lineage{ID: 2, Parent: old, Fork: c.Fork}
	case "brandnew":
		cur = &cache.Lineage{ID: 3}
	}
	other := &cache.Lineage{ID: 9}
	src := fake.NewSource()
	defer src.Close()
	src.ReplID, src.MasterOffset, src.BacklogOff, src.StreamExtra = cur.RunID(), c.Master, c.Backlog, c.Extra
	if c.SrcKind == "failover" {
		src.ReplID2, src.SecondOffset = old.RunID(), c.Fork+1
		if src.BacklogOff > c.Master+1 {
			src.BacklogOff = c.Master + 1
		}
	}
	src.At = cur.At
	src.Snapshot = func(off int64) []byte { return cache.SnapBytes(cur.ID, off, 64+off%50) }

	// cache pre-state, produced by the real writers
	dir := ""
	if c.Disk {
		dir = pbt.TmpDir("c06")
		defer os.RemoveAll(dir)
	}
	ch := cache.Open(c.Disk, dir, 512, -1)
	defer ch.Close()
	var clin *cache.Lineage
	switch c.CacheKind {
	case "cur":
		clin = cur
	case "prev":
		clin = old
	case "other":
		clin = other
	}
	if clin != nil {
		if err := ch.C.SetRunId(clin.RunID()); err != nil {
			return nil, "SetRunId: " + err.Error(), facts, nil
		}
		if c.Snapshot {
			if e := ch.WriteRdb(clin.ID, c.CLeft, 80, 80); e != "" {
				return nil, e, facts, nil
			}
		}
		if e := ch.StartAof(c.CLeft); e != "" {
			return nil, e, facts, nil
		}
		if c.CRight > c.CLeft {
			if e := appendLin(ch, clin, c.CLeft, c.CRight-c.CLeft, clin.RunID()); e != "" {
				return nil, e, facts, nil
			}
		}
		ch.StopWriter()
	}
	// the target's memory
	out := &stubOutput{enough: make(chan struct{}), want: 16, failSetRunId: c.SetRunIdFails, known: map[string]bool{cur.RunID(): true}}
	if c.SrcKind == "failover" {
		out.known[old.RunID()] = true
	}
	switch c.OutKind {
	case "cur":
		out.runID, out.offset, out.has = cur.RunID(), c.OutOff, true
	case "prev":
		out.runID, out.offset, out.has = old.RunID(), c.OutOff, true
	case "unknown":
		out.runID, out.offset, out.has = other.RunID(), c.OutOff, true
	}
	storedID, storedOff, storedHas := out.runID, out.offset, out.has

	in := syncer.NewRedisInput(gen.RedisCfg(src.Addr()))
	in.SetChannel(ch.C)
	in.SetOutput(out)
	runDone := make(chan error, 1)
	go func() { runDone <- in.Run() }()
	select {
	case <-out.enough:
	case <-time.After(12 * time.Second):
	}
	time.Sleep(5 * time.Millisecond)
	in.Stop()
	src.DropReplicas()
	select {
	case <-runDone:
	case <-time.After(10 * time.Second):
		inconc = "RedisInput.Run did not return within 10 s after Stop"
	}
	out.mu.Lock()
	sends := append([]*sendRec(nil), out.sends...)
	out.mu.Unlock()
	reqs := src.Reqs()
	var psyncs []fake.SourceRequest
	for _, r := range reqs {
		if r.Cmd == "psync" {
			psyncs = append(psyncs, r)
		}
	}
	hist = map[string]any{"psync": psyncs, "sends": sends, "stored": fmt.Sprintf("%v %s %d", storedHas, storedID, storedOff)}
	if len(sends) == 0 {
		if inconc == "" {
			inconc = "the output was never handed a reader within 12 s"
		}
		return nil, inconc, facts, hist
	}

	// is the stored position a point of the source's current history?
	compatible := storedHas && ((storedID == cur.RunID()) || (c.SrcKind == "failover" && storedID == old.RunID() && storedOff <= c.Fork))
	first := sends[0]
	verifyAof := func(s *sendRec, what string) {
		for i, b := range s.Bytes {
			if w := cur.At(s.Left + int64(i)); b != w {
				fs = append(fs, failure{"delivered-bytes-of-another-history:" + c.CacheKind, fmt.Sprintf("%s: reader starting at %d delivered byte %#02x at offset %d, the current history has %#02x there (cache pre-state: %s [%d,%d])", what, s.Left, b, s.Left+int64(i), w, c.CacheKind, c.CLeft, c.CRight)})
				return
			}
		}
	}
	if first.Aof {
		facts["continued"] = true
		switch {
		case !storedHas:
			fs = append(fs, failure{"continued-without-stored-position", fmt.Sprintf("the target had no resume position but the first reader is a log reader at %d", first.Left)})
		case !compatible:
			sub := c.OutKind + "-id"
			if c.OutKind == "prev" && c.SrcKind == "failover" {
				sub = "prev-id-beyond-switch-offset"
			}
			sig := "continued-from-foreign-position:" + sub + ":cache-" + c.CacheKind
			if sub == "prev-id-beyond-switch-offset" {
				// one root cause whatever the cache holds: the position is re-labelled / validated by replication id alone, the switch
				// offset (second_repl_offset) is never consulted. With a cache of the current id the very first PSYNC already uses the
				// current id; with any other cache the first attempt ends in a FULLRESYNC, and if that attempt is cut short before the
				// snapshot is handed over, the re-labelled position is continued by the next one
				sig = "continued-from-foreign-position:" + sub
			}
			fs = append(fs, failure{sig, fmt.Sprintf("the stored position (%s,%d) is not a point of the source's current history (source %s, fork %d) but replay continues with a log reader at %d", storedID, storedOff, c.SrcKind, c.Fork, first.Left)})
		case first.Left != storedOff:
			sig := "continued-from-later-position"
			if first.Left < storedOff {
				sig = "continued-from-earlier-position"
			}
			fs = append(fs, failure{sig, fmt.Sprintf("the target's resume position is %d, the log reader handed to it starts at %d", storedOff, first.Left)})
		}
		verifyAof(first, "continuation")
		// partial resynchronisation is relied on only when the source granted it
		granted := false
		for _, p := range psyncs {
			if p.Reply == "CONTINUE" {
				granted = true
			}
		}
		if !granted {
			fs = append(fs, failure{"continued-without-grant", "replay continued with a log reader although the source answered every PSYNC with FULLRESYNC"})
		}
	} else {
		facts["full-sync"] = true
		if int64(first.N) != first.Size {
			fs = append(fs, failure{"snapshot-cut-short", fmt.Sprintf("snapshot reader delivered %d of %d bytes", first.N, first.Size)})
		}
		// which snapshot is it: one the source just sent, or the cached one?
		fromSource := false
		for _, p := range psyncs {
			var so int64
			if n, _ := fmt.Sscanf(p.Reply, "FULLRESYNC %d", &so); n == 1 && so == first.Left {
				fromSource = true
				want := src.Snapshot(so)
				if string(want) != string(first.Bytes) {
					fs = append(fs, failure{"snapshot-bytes-differ", fmt.Sprintf("snapshot at %d: delivered bytes differ from what the source sent", so)})
				}
			}
		}
		if !fromSource {
			facts["replayed-cached-snapshot"] = true
			// a cached snapshot may only be replayed if it belongs to the current history and the target has no position
			if c.CacheKind != "cur" && !(c.CacheKind == "prev" && c.SrcKind == "failover" && c.CRight <= c.Fork) {
				fs = append(fs, failure{"cached-snapshot-of-foreign-history-replayed:" + c.CacheKind, fmt.Sprintf("the snapshot handed to the target (offset %d) was not sent by the source now and the cache pre-state is %s", first.Left, c.CacheKind)})
			} else if want := cache.SnapBytes(clin.ID, c.CLeft, 80); string(want) != string(first.Bytes) {
				fs = append(fs, failure{"snapshot-bytes-differ", "the cached snapshot was replayed with other bytes than were stored"})
			}
		}
		if len(sends) > 1 {
			second := sends[1]
			if !second.Aof {
				facts["second-snapshot"] = true
			} else {
				if second.Left != first.Left {
					fs = append(fs, failure{"log-after-snapshot-starts-elsewhere", fmt.Sprintf("snapshot offset %d, the following log reader starts at %d", first.Left, second.Left)})
				}
				if fromSource || c.CacheKind == "cur" {
					verifyAof(second, "log after snapshot")
				}
			}
		}
	}
	// (a) the PSYNC arguments use the source's convention: offset = position + 1, or ? -1
	for _, p := range psyncs {
		if len(p.Args) == 2 && p.Args[0] == "?" && p.Args[1] != "-1" {
			fs = append(fs, failure{"psync-args", fmt.Sprintf("PSYNC ? %s", p.Args[1])})
		}
	}
	if len(psyncs) > 0 && psyncs[0].Reply == "CONTINUE" && first.Aof && storedHas {
		facts["partial-resync-granted"] = true
	}
	if c.SetRunIdFails > 0 {
		facts["second-connection-after-failed-run-id-update"] = true
	}
	facts["src:"+c.SrcKind] = true
	facts["out:"+c.OutKind] = true
	facts["cache:"+c.CacheKind] = true
	return fs, inconc, facts, hist
}

func appendLin(ch *cache.Chan, l *cache.Lineage, from, n int64, id string) string {
	// cache.Chan.Append feeds ByteAt(lineage id); with a forked lineage the bytes come from the lineage function
	return ch.AppendBytes(l.Bytes(from, n), from, id)
}

func check(t pbt.TB, c Case) {
	st := pbt.For(prop)
	st.Case()
	cj := pbt.JSON(c)
	fs, inconc, facts, hist := run(c)
	if inconc != "" && len(fs) == 0 {
		st.Inconc(inconc)
		return
	}
	for k := range facts {
		st.Class(k)
	}
	if facts["continued"] && c.SrcKind == "failover" && (c.CacheKind == "cur" || c.CacheKind == "prev") && c.CRight != c.OutOff {
		st.NonTrivial(cj)
	} else if facts["replayed-cached-snapshot"] || (facts["continued"] && c.CRight != c.OutOff) {
		st.NonTrivial(cj)
	} else {
		st.Sample(cj)
	}
	for _, f := range fs {
		st.Fail(t, f.sig, f.msg, cj, hist)
	}
}

func TestC06(t *testing.T) {
	rapid.Check(t, func(t *rapid.T) { check(t, genCase(t)) })
}

func TestC06Replay(t *testing.T) {
	if os.Getenv("VERIF_REPLAY") == "" {
		t.Skip("no VERIF_REPLAY")
	}
	v, err := pbt.LoadReplay()
	if err != nil {
		t.Fatal(err)
	}
	var c Case
	if err := json.Unmarshal(v.Case, &c); err != nil {
		t.Fatal(err)
	}
	check(t, c)
}
