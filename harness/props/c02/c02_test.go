// C02 — a crash at any instant loses no source write; transactional mode repeats none.
package c02

import (
	"bytes"
	"encoding/json"
	"fmt"
	"os"
	"testing"

	"pgregory.net/rapid"

	"verifharness/gen"
	"verifharness/pbt"
	"verifharness/replay"
)

const prop = "C02"

func TestMain(m *testing.M) { pbt.Main(m) }

// FCase = a replay case plus one concrete fault sequence (what a replay file holds).
type FCase struct {
	replay.Case
	Faults []replay.Fault `json:"faults"`
}

func genCase(t *rapid.T) replay.Case {
	yes := true
	c := replay.Case{}
	c.Cfg = gen.GenOutCfg(t, &yes, nil)
	c.Cmds = gen.GenStream(t, c.Cfg, gen.StreamOpts{MaxCmds: 22, TxnBias: 3, SelectBias: 2})
	c.Sched = gen.GenSchedule(t, c.Cfg, false)
	if rapid.IntRange(0, 4).Draw(t, "pingIdle") == 0 || (len(c.Cfg.DbBlacklist) > 0 && rapid.Bool().Draw(t, "pingIdleInBlacklistedDb")) {
		// (with a database blacklist: keep-alives also arrive while the source stands in a blacklisted database)
		// an idle master: keep-alive PINGs surrounded by idle time, in front of SELECT / MULTI
		c.Cmds, c.Sched = gen.PingIdle(t, c.Cfg, c.Cmds)
	}
	// keep the enumeration cheap: at most two short idle gaps
	if len(c.Sched.Pauses) > 2 {
		c.Sched.Pauses = c.Sched.Pauses[:2]
	}
	c.Start = rapid.Int64Range(0, 1<<33).Draw(t, "start")
	return c
}

type failure struct {
	sig, msg string
}

func eqArgs(a, b [][]byte) bool {
	if len(a) != len(b) {
		return false
	}
	for i := range a {
		if !bytes.Equal(a[i], b[i]) {
			return false
		}
	}
	return true
}

func showE(e gen.Expect) string {
	return fmt.Sprintf("db%d %s %s", e.DB, e.Cmd, pbt.JSON(pbt.Bs(e.Args)))
}
func showD(d replay.DataCmd) string {
	return fmt.Sprintf("db%d %s %s", d.DB, d.Cmd, pbt.JSON(pbt.Bs(d.Args)))
}

// judge applies C02's oracle to a multi-run trace.
func judge(tr *replay.Trace, cfg gen.OutCfg) []failure {
	var fs []failure
	m := tr.Model
	exp := m.Expected
	reached := -1 // highest expected index executed so far
	goodStored := false
	for k, run := range tr.Runs {
		initial := run.SpRunID == "?" || run.SpOffset < 0
		if initial && goodStored {
			fs = append(fs, failure{"resume-position-lost", fmt.Sprintf("run %d: StartPoint returned none although a resume position >= 0 had been stored on the target", k)})
		}
		if !initial && !replay.IsBoundary(m, run.SpOffset) {
			fs = append(fs, failure{"resume-not-command-boundary", fmt.Sprintf("run %d resumes at offset %d which is not the end of a source command", k, run.SpOffset)})
			return fs
		}
		if run.FeedFrom < m.Start || run.FeedFrom > m.Ends[len(m.Ends)-1] {
			fs = append(fs, failure{"resume-beyond-stream", fmt.Sprintf("run %d resumes at offset %d, outside the stream [%d,%d]", k, run.FeedFrom, m.Start, m.Ends[len(m.Ends)-1])})
			return fs
		}
		a := replay.ExpectedIndexAfter(m, run.FeedFrom)
		if k > 0 {
			if a > reached+1 {
				fs = append(fs, failure{"gap-after-restart", fmt.Sprintf("run %d resumes at offset %d = expected command #%d, but the target had only executed up to #%d: commands #%d..#%d (%s ...) are skipped", k, run.FeedFrom, a, reached, reached+1, a-1, showE(exp[reached+1]))})
			}
			if cfg.Txn && a < reached+1 {
				fs = append(fs, failure{"repeat-in-transactional-mode", fmt.Sprintf("run %d resumes at offset %d = expected command #%d although the target already executed up to #%d: %d commands will run twice", k, run.FeedFrom, a, reached, reached+1-a)})
			}
		}
		got := replay.DataLog(run.SendLog)
		for i, g := range got {
			if a+i >= len(exp) {
				fs = append(fs, failure{"extra-command", fmt.Sprintf("run %d executed %s after the end of the stream", k, showD(g))})
				break
			}
			e := exp[a+i]
			if e.Cmd == g.Cmd && eqArgs(e.Args, g.Args) && e.DB == g.DB {
				continue
			}
			sig := "mismatch-in-run"
			if k > 0 && srcDBBlacklistedAt(m, cfg, run.FeedFrom) {
				// known root cause: the stored position does not record that the source was inside a blacklisted db. On the unchanged tree the
				// position can only get INTO such a stretch behind a transaction bracket (brackets are forwarded from blacklisted dbs since
				// e480ad0); a position behind anything else (a keep-alive PING, a filtered command) is another defect
				// ... unless an EARLIER run of this history had already resumed inside the same stretch: that run no longer knew that the
				// source's db is blacklisted (the open finding), treated the rest of the stretch as ordinary traffic and stored positions
				// anywhere in it (thorough tier, chain of two restarts, 1 case in 2172)
				earlier := false
				for j := 1; j < k; j++ {
					if f := tr.Runs[j].FeedFrom; srcDBBlacklistedAt(m, cfg, f) && stretchOf(m, f) == stretchOf(m, run.FeedFrom) {
						earlier = true
					}
				}
				if nm := nameEndingAt(m, run.FeedFrom); !earlier && nm != "multi" && nm != "exec" {
					fs = append(fs, failure{"position-advanced-inside-blacklisted-db:" + nm, fmt.Sprintf("run %d resumes at offset %d, the end of a %q that the source sent while its current db was blacklisted: nothing of such a stretch but transaction brackets may move the stored position; the restarted tool executed %s although the reference expects %s next", k, run.FeedFrom, nm, showD(g), showE(e))})
					return fs
				}
				fs = append(fs, failure{"resume-inside-blacklisted-db", fmt.Sprintf("run %d resumes at offset %d where the source's current db is blacklisted; the restarted tool no longer knows that and executed %s (in the db the checkpoint was found in) although the reference expects %s next", k, run.FeedFrom, showD(g), showE(e))})
				return fs
			}
			switch {
			case e.Cmd == g.Cmd && eqArgs(e.Args, g.Args):
				sig = "wrong-db"
				if k > 0 {
					sig = "wrong-db-after-restart"
				}
			case a+i+1 < len(exp) && exp[a+i+1].Cmd == g.Cmd && eqArgs(exp[a+i+1].Args, g.Args):
				sig = "dropped-in-run"
			case i > 0 && got[i-1].Cmd == g.Cmd && eqArgs(got[i-1].Args, g.Args):
				sig = "duplicated-in-run"
			case i == 0 && k > 0:
				sig = "unexpected-first-command-after-restart"
			}
			fs = append(fs, failure{sig, fmt.Sprintf("run %d (fed from offset %d, StartPoint db %d): command %d of the run should be expected #%d %s, target executed %s", k, run.FeedFrom, run.SpDb, i, a+i, showE(e), showD(g))})
			break
		}
		if len(got) > 0 && a+len(got)-1 > reached {
			reached = a + len(got) - 1
		}
		for _, w := range replay.OffsetWrites(run.Log) {
			if w.Value >= 0 {
				goodStored = true
			}
		}
	}
	last := tr.Runs[len(tr.Runs)-1]
	sawEnd := false
	for _, r := range tr.Runs {
		sawEnd = sawEnd || r.SawEnd
	}
	if last.NothingLeft {
		last.SawEnd = sawEnd || reached == len(exp)-1
	}
	if len(fs) == 0 && last.SawEnd && reached != len(exp)-1 {
		fs = append(fs, failure{"incomplete-at-end", fmt.Sprintf("sentinel executed but only %d of %d expected commands reached", reached+1, len(exp))})
	}
	if len(fs) == 0 && !last.SawEnd && !last.Crashed && !last.Stopped && !last.NothingLeft {
		fs = append(fs, failure{"send-stopped-early", fmt.Sprintf("final run ended (%s) before the stream end; reached expected #%d of %d", last.SendErr, reached, len(exp)-1)})
	}
	return fs
}

// srcDBBlacklistedAt: is the source database in effect at offset off (per the reference model) a blacklisted one?
// stretchOf: index of the last SELECT at or before the offset (identifies the stretch of the stream that runs in one source db)
func stretchOf(m *gen.Model, off int64) int {
	st := -1
	for i, e := range m.Ends {
		if e <= off && i < len(m.Names) && m.Names[i] == "select" {
			st = i
		}
	}
	return st
}

func nameEndingAt(m *gen.Model, off int64) string {
	for i, e := range m.Ends {
		if e == off && i < len(m.Names) {
			return m.Names[i]
		}
	}
	return "?"
}

func srcDBBlacklistedAt(m *gen.Model, cfg gen.OutCfg, off int64) bool {
	db := -1
	for i, e := range m.Ends {
		if e <= off {
			db = m.SrcDB[i]
		}
	}
	for _, b := range cfg.DbBlacklist {
		if b == db {
			return true
		}
	}
	return false
}

func hist(tr *replay.Trace) any {
	return map[string]any{"runs": tr.Runs}
}

// interesting reports whether fault point n of the base run is one of the instants the property singles out.
func interesting(base *replay.Run, n int) bool {
	reqs := base.Reqs[len(base.Reqs)-base.SendReqs:]
	if n < 1 || n > len(reqs) {
		return false
	}
	r := reqs[n-1]
	if r.Cmd == "multi" || r.Queued {
		return true // inside a target MULTI
	}
	if n < len(reqs) {
		nx := reqs[n]
		if nx.Cmd == "hset" && len(nx.Args) > 0 && gen.IsReservedKey(nx.Args[0]) && !(r.Cmd == "hset" && len(r.Args) > 0 && gen.IsReservedKey(r.Args[0])) {
			return true // between a batch and its checkpoint write
		}
	}
	return r.Cmd == "select"
}

func check(t pbt.TB, c replay.Case) {
	st := pbt.For(prop)
	st.Case()
	cj := pbt.JSON(c)
	base := replay.Execute(c, nil)
	st.Eval(1)
	if base.Inconc != "" {
		st.Inconc(base.Inconc)
		return
	}
	report := func(tr *replay.Trace, faults []replay.Fault) bool {
		fs := judge(tr, c.Cfg)
		if len(fs) == 0 {
			return false
		}
		fj := pbt.JSON(FCase{c, faults})
		for _, f := range fs {
			st.Fail(t, f.sig, f.msg, fj, hist(tr)) // does not return for a genuine violation
		}
		return false // only listed known findings: keep searching behind them
	}
	if report(base, nil) {
		return
	}
	R := base.Runs[0].SendReqs
	if R > 90 {
		R = 90
	}
	nt := false
	for _, mode := range []string{"crash", "stop"} {
		for n := 1; n <= R; n++ {
			faults := []replay.Fault{{Mode: mode, At: n}}
			tr := replay.Execute(c, faults)
			st.Eval(len(tr.Runs))
			st.Fault(1)
			if tr.Inconc != "" {
				st.Inconc(tr.Inconc)
				continue
			}
			if interesting(&base.Runs[0], n) {
				nt = true
				st.Class("fault-at-singled-out-instant")
			}
			st.ClassIf(len(tr.Runs) > 1 && tr.Runs[1].FeedFrom > c.Start, "resumed-mid-stream")
			if report(tr, faults) {
				return
			}
			// thorough: a second fault in the resumed run
			if pbt.Thorough() && len(tr.Runs) > 1 && n%3 == 0 {
				m := 1 + (n*7)%(tr.Runs[1].SendReqs+1)
				f2 := []replay.Fault{{Mode: mode, At: n}, {Mode: "crash", At: m}}
				tr2 := replay.Execute(c, f2)
				st.Eval(len(tr2.Runs))
				st.Fault(1)
				if tr2.Inconc != "" {
					st.Inconc(tr2.Inconc)
					continue
				}
				st.Class("double-fault")
				if report(tr2, f2) {
					return
				}
			}
		}
	}
	st.ClassIf(c.Cfg.Txn, "txn-mode")
	st.ClassIf(c.Cfg.Pipeline, "pipeline")
	if nt && len(base.Model.Expected) >= 3 {
		st.NonTrivial(cj)
	} else {
		st.Sample(cj)
	}
}

func TestC02(t *testing.T) {
	rapid.Check(t, func(t *rapid.T) { check(t, genCase(t)) })
}

// TestC02Keepalive: the source goes idle for longer than the keep-alive ticker at a chosen boundary; the fault points right
// behind the idle gap (the keep-alive driven flush) are enumerated in both flavours.
func TestC02Keepalive(t *testing.T) {
	rapid.Check(t, func(t *rapid.T) {
		cfg, cmds, sched := gen.GenKeepaliveCase(t, nil)
		c := replay.Case{Cfg: cfg, Cmds: cmds, Sched: sched, Start: rapid.Int64Range(0, 1<<33).Draw(t, "start")}
		st := pbt.For(prop)
		st.Case()
		cj := pbt.JSON(c)
		base := replay.Execute(c, nil)
		st.Eval(1)
		if base.Inconc != "" {
			st.Inconc(base.Inconc)
			return
		}
		report := func(tr *replay.Trace, faults []replay.Fault) {
			fj := pbt.JSON(FCase{c, faults})
			for _, f := range judge(tr, c.Cfg) {
				st.Fail(t, f.sig, f.msg, fj, hist(tr))
			}
		}
		report(base, nil)
		win := replay.IdleWindow(&base.Runs[0], 800, 5)
		if len(win) == 0 {
			st.Sample(cj)
			st.Class("keepalive:no-request-after-idle-gap")
			return
		}
		st.Class("keepalive:flush-after-idle-gap")
		for _, mode := range []string{"crash", "stop"} {
			for _, n := range win {
				faults := []replay.Fault{{Mode: mode, At: n}}
				tr := replay.Execute(c, faults)
				st.Eval(len(tr.Runs))
				st.Fault(1)
				if tr.Inconc != "" {
					st.Inconc(tr.Inconc)
					continue
				}
				report(tr, faults)
			}
		}
		st.NonTrivial(cj)
	})
}

func TestC02Replay(t *testing.T) {
	if os.Getenv("VERIF_REPLAY") == "" {
		t.Skip("no VERIF_REPLAY")
	}
	v, err := pbt.LoadReplay()
	if err != nil {
		t.Fatal(err)
	}
	var c FCase
	if err := json.Unmarshal(v.Case, &c); err != nil {
		t.Fatal(err)
	}
	// schedule-dependent: try a few times, any failing execution counts
	for i := 0; i < 5; i++ {
		tr := replay.Execute(c.Case, c.Faults)
		if tr.Inconc != "" {
			continue
		}
		for _, f := range judge(tr, c.Cfg) {
			pbt.For(prop).Fail(t, f.sig, f.msg, v.Case, hist(tr))
		}
	}
}
