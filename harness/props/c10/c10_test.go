// C10 — filters pass exactly the configured set of commands, keys, slots and databases.
package c10

import (
	"sort"
	"bytes"
	"context"
	"encoding/json"
	"fmt"
	"os"
	"strconv"
	"strings"
	"testing"
	"time"
	"unicode/utf8"

	"pgregory.net/rapid"

	"github.com/mgtv-tech/redis-GunYu/config"
	"github.com/mgtv-tech/redis-GunYu/pkg/filter"

	"verifharness/fake"
	"verifharness/fullsync"
	"verifharness/gen"
	"verifharness/pbt"
	"verifharness/ref/filtermodel"
	"verifharness/ref/hashslot"
	"verifharness/ref/keyspec"
	"verifharness/ref/rdbgen"
	"verifharness/ref/resp"

	"github.com/mgtv-tech/redis-GunYu/syncer"
)

const prop = "C10"

func TestMain(m *testing.M) { pbt.Main(m) }

// ---------------------------------------------------------------- generators

var prefixPool = []string{"user:", "a", "{tag}", "k", "key:", "é", "日本", "redis-gunyu", "/redis", "__", "u"}

func genFilterCfg(t *rapid.T) filtermodel.Config {
	c := filtermodel.Config{}
	genRanges := func(label string) [][]uint16 {
		n := rapid.IntRange(1, 6).Draw(t, label+"N")
		var out [][]uint16
		for i := 0; i < n; i++ {
			switch rapid.IntRange(0, 5).Draw(t, label+"Kind") {
			case 0:
				out = append(out, []uint16{uint16(rapid.IntRange(0, 16383).Draw(t, label+"S"))})
			case 1: // wide range (nesting others)
				l := rapid.IntRange(0, 3000).Draw(t, label+"L")
				out = append(out, []uint16{uint16(l), uint16(rapid.IntRange(12000, 16383).Draw(t, label+"R"))})
			case 2: // reversed: ignored
				l := rapid.IntRange(1, 16383).Draw(t, label+"L")
				out = append(out, []uint16{uint16(l), uint16(rapid.IntRange(0, l-1).Draw(t, label+"R"))})
			default:
				l := rapid.IntRange(0, 16383).Draw(t, label+"L")
				w := rapid.SampledFrom([]int{0, 1, 10, 500, 4000, 9000}).Draw(t, label+"W")
				r := l + w
				if r > 16383 {
					r = 16383
				}
				out = append(out, []uint16{uint16(l), uint16(r)})
			}
		}
		return out
	}
	if rapid.IntRange(0, 2).Draw(t, "hasSlotWhite") != 0 {
		c.SlotWhite = genRanges("sw")
	}
	if rapid.IntRange(0, 2).Draw(t, "hasSlotBlack") == 0 {
		c.SlotBlack = genRanges("sb")
	}
	if rapid.IntRange(0, 3).Draw(t, "hasPrefixWhite") == 0 {
		c.PrefixWhite = rapid.SliceOfNDistinct(rapid.SampledFrom(prefixPool), 1, 3, rapid.ID[string]).Draw(t, "pw")
	}
	if rapid.IntRange(0, 2).Draw(t, "hasPrefixBlack") == 0 {
		c.PrefixBlack = rapid.SliceOfNDistinct(rapid.SampledFrom(prefixPool), 1, 3, rapid.ID[string]).Draw(t, "pb")
	}
	if rapid.IntRange(0, 3).Draw(t, "hasDbBlack") == 0 {
		c.DbBlack = rapid.SliceOfNDistinct(rapid.IntRange(0, 15), 1, 3, rapid.ID[int]).Draw(t, "dbb")
	}
	if rapid.IntRange(0, 2).Draw(t, "hasCmdBlack") == 0 {
		c.CmdBlack = rapid.SliceOfNDistinct(rapid.SampledFrom([]string{"lpop", "PFADD", "Rename", "evalsha", "hincrby", "DEL", "mset", "Zunionstore"}), 1, 2, rapid.ID[string]).Draw(t, "cb")
		if rapid.Bool().Draw(t, "relatedNames") {
			// names of which one is a prefix of another (set / setnx / setex / setrange, incr / incrby, restore / RESTORE-ASKING ...), in any
			// order: the blacklist is an exact-match set, whatever structure holds it
			fam := rapid.SampledFrom(cmdFamilies).Draw(t, "family")
			names := rapid.SliceOfNDistinct(rapid.SampledFrom(fam), 2, len(fam), rapid.ID[string]).Draw(t, "familyNames")
			c.CmdBlack = nil
			for _, n := range names {
				if rapid.IntRange(0, 3).Draw(t, "upperName") == 0 {
					n = strings.ToUpper(n)
				}
				c.CmdBlack = append(c.CmdBlack, n)
			}
			if rapid.Bool().Draw(t, "plusOther") {
				c.CmdBlack = append(c.CmdBlack, rapid.SampledFrom([]string{"lpop", "PFADD", "Rename", "DEL"}).Draw(t, "other"))
			}
		}
	}
	return c
}

func genKey(t *rapid.T) []byte {
	switch rapid.IntRange(0, 5).Draw(t, "keyKind") {
	case 0:
		return []byte(rapid.SampledFrom(prefixPool).Draw(t, "kp") + strconv.Itoa(rapid.IntRange(0, 50).Draw(t, "kn")))
	case 1:
		toks := rapid.SliceOfN(rapid.SampledFrom([]string{"{", "}", "{}", "a", "b", "tag", "user:", "1", "\xff", "\x00"}), 1, 6).Draw(t, "ktoks")
		return []byte(strings.Join(toks, ""))
	case 2:
		return rapid.SliceOfN(rapid.Byte(), 1, 10).Draw(t, "kbytes")
	case 3:
		return []byte(rapid.SampledFrom([]string{"redis-gunyu-checkpoint", "redis-gunyu-checkpoint-hash", "/redis-gunyu/x", "redis-gunyu-bisync:marker:{1}", "redis-gunyX"}).Draw(t, "kres"))
	default:
		return []byte("k" + strconv.Itoa(rapid.IntRange(0, 2000).Draw(t, "ki")))
	}
}

type Cmd struct {
	Name string  `json:"n"`
	Args []pbt.B `json:"a"`
}

func (c Cmd) raw() [][]byte { return pbt.Raw(c.Args) }

var tableNames []string

// cmdFamilies: command names of the reference table (and of the tool's built-in black list) that are prefixes of one another
var cmdFamilies [][]string

func init() {
	for n := range keyspec.Table {
		tableNames = append(tableNames, n)
	}
	// deterministic order
	for i := 0; i < len(tableNames); i++ {
		for j := i + 1; j < len(tableNames); j++ {
			if tableNames[j] < tableNames[i] {
				tableNames[i], tableNames[j] = tableNames[j], tableNames[i]
			}
		}
	}
}

func init() {
	all := append([]string(nil), tableNames...)
	for n := range filtermodel.Admin {
		all = append(all, n)
	}
	all = append(all, "restore", "sync", "save", "bgsave", "role", "wait", "reset", "echo")
	seen := map[string]bool{}
	for _, a := range all {
		fam := []string{a}
		for _, b := range all {
			if b != a && strings.HasPrefix(b, a) && !seenIn(fam, b) {
				fam = append(fam, b)
			}
		}
		if len(fam) >= 2 && !seen[a] {
			seen[a] = true
			cmdFamilies = append(cmdFamilies, fam)
		}
	}
	sort.Slice(cmdFamilies, func(i, j int) bool { return cmdFamilies[i][0] < cmdFamilies[j][0] })
	for _, f := range cmdFamilies {
		sort.Strings(f[1:])
	}
}

func seenIn(l []string, x string) bool {
	for _, y := range l {
		if y == x {
			return true
		}
	}
	return false
}

// biasToBlacklist: one command in four is taken from the configured black list or from the relatives of its names
func biasToBlacklist(t *rapid.T, cfg filtermodel.Config, c Cmd) Cmd {
	if len(cfg.CmdBlack) == 0 || rapid.IntRange(0, 3).Draw(t, "hitBlacklist") != 0 {
		return c
	}
	var cands []string
	for _, b := range cfg.CmdBlack {
		lb := strings.ToLower(b)
		for _, n := range tableNames {
			if strings.HasPrefix(n, lb) || strings.HasPrefix(lb, n) {
				cands = append(cands, n)
			}
		}
	}
	if len(cands) == 0 {
		return c
	}
	sort.Strings(cands)
	name := rapid.SampledFrom(cands).Draw(t, "blackRelative")
	return genCmdNamed(t, name)
}

func genCmd(t *rapid.T) Cmd {
	name := rapid.SampledFrom(tableNames).Draw(t, "cmd")
	if rapid.IntRange(0, 3).Draw(t, "multikeyBias") == 0 {
		name = rapid.SampledFrom([]string{"del", "unlink", "mset", "rename", "sinterstore", "bitop", "zunionstore", "msetnx", "pfmerge", "eval"}).Draw(t, "mk")
	}
	return genCmdNamed(t, name)
}

func genCmdNamed(t *rapid.T, name string) Cmd {
	sp := keyspec.Table[name]
	val := func() []byte { return gen.GenVal().Draw(t, "v") }
	var args [][]byte
	switch {
	case sp.NumkeysAt > 0:
		n := rapid.IntRange(1, 3).Draw(t, "numkeys")
		if sp.Dest > 0 {
			args = append(args, genKey(t))
		} else {
			args = append(args, []byte("return 1"))
		}
		args = append(args, []byte(strconv.Itoa(n)))
		for i := 0; i < n; i++ {
			args = append(args, genKey(t))
		}
		if rapid.Bool().Draw(t, "trailing") {
			args = append(args, val())
		}
	case sp.Last < 0:
		for i := 1; i < sp.First; i++ {
			args = append(args, []byte("AND"))
		}
		n := rapid.IntRange(1, 4).Draw(t, "nk")
		for i := 0; i < n; i++ {
			args = append(args, genKey(t))
			for s := 1; s < sp.Step; s++ {
				args = append(args, val())
			}
		}
	default:
		for i := 1; i <= sp.Last; i++ {
			args = append(args, genKey(t))
		}
		na := rapid.IntRange(0, 3).Draw(t, "extra")
		for i := 0; i < na; i++ {
			args = append(args, val())
		}
	}
	if rapid.Bool().Draw(t, "upper") {
		name = strings.ToUpper(name)
	}
	return Cmd{Name: name, Args: pbt.Bs(args)}
}

// ---------------------------------------------------------------- pure layer

type PureCase struct {
	Cfg filtermodel.Config `json:"cfg"`
	Cmd Cmd                `json:"cmd"`
	DB  int                `json:"db"`
}

// buildFilter constructs the tool's filter from a configuration the way NewRedisOutput does.
func buildFilter(c filtermodel.Config) *filter.RedisKeyFilter {
	f := &filter.RedisKeyFilter{}
	f.InsertCmdBlackList(filter.NoRouteCmds, true)
	f.InsertCmdBlackList(c.CmdBlack, true)
	f.InsertPrefixKeyBlackList([]string{config.CheckpointKey, config.NamespacePrefixKey, "redis-gunyu-bisync"})
	f.InsertPrefixKeyBlackList(c.PrefixBlack)
	f.InsertPrefixKeyWhiteList(c.PrefixWhite)
	f.InsertSlotWhiteList(c.SlotWhite)
	f.InsertSlotBlackList(c.SlotBlack)
	if len(c.DbBlack) > 0 {
		f.InsertDbBlackList(c.DbBlack)
	}
	return f
}

type failure struct{ sig, msg string }

func eqArgs(a, b [][]byte) bool {
	if len(a) != len(b) {
		return false
	}
	for i := range a {
		if !bytes.Equal(a[i], b[i]) {
			return false
		}
	}
	return true
}

func overlapping(rs [][]uint16) bool {
	var v [][]uint16
	for _, r := range rs {
		if len(r) == 1 {
			v = append(v, []uint16{r[0], r[0]})
		} else if len(r) == 2 && r[0] <= r[1] {
			v = append(v, r)
		}
	}
	for i := range v {
		for j := i + 1; j < len(v); j++ {
			if v[i][0] <= v[j][1] && v[j][0] <= v[i][1] {
				return true
			}
		}
	}
	return false
}

func runPure(c PureCase) (fs []failure, nontrivial bool) {
	st := pbt.For(prop)
	st.Eval(1)
	f := buildFilter(c.Cfg)
	lc := strings.ToLower(c.Cmd.Name)
	args := c.Cmd.raw()
	// per-key decisions
	idx, _ := keyspec.Keys(lc, args)
	mixed, acc, rej := false, 0, 0
	for _, k := range idx {
		key := args[k]
		wantP, wantS := c.Cfg.PrefixRejected(key), c.Cfg.SlotRejected(key)
		if got := f.FilterKey(string(key)); got != wantP {
			fs = append(fs, failure{"FilterKey", fmt.Sprintf("FilterKey(%q)=%v, prefix rules say rejected=%v", key, got, wantP)})
		}
		if got := f.FilterSlot(string(key)); got != wantS {
			sub := "single"
			if overlapping(c.Cfg.SlotWhite) || overlapping(c.Cfg.SlotBlack) {
				sub = "overlapping-ranges"
			}
			fs = append(fs, failure{"FilterSlot-" + sub, fmt.Sprintf("FilterSlot(%q)=%v but slot %d rejected=%v under white=%v black=%v", key, got, hashslot.Slot(key), wantS, c.Cfg.SlotWhite, c.Cfg.SlotBlack)})
		}
		if wantP || wantS {
			rej++
		} else {
			acc++
		}
	}
	mixed = acc > 0 && rej > 0
	if got, want := f.FilterCmd(lc), c.Cfg.CmdRejected(lc); got != want {
		fs = append(fs, failure{"FilterCmd", fmt.Sprintf("FilterCmd(%q)=%v want %v (blacklist %v)", lc, got, want, c.Cfg.CmdBlack)})
	}
	if got, want := f.FilterDb(c.DB), c.Cfg.DbRejected(c.DB); got != want {
		fs = append(fs, failure{"FilterDb", fmt.Sprintf("FilterDb(%d)=%v want %v", c.DB, got, want)})
	}
	wantArgs, wantWithheld := c.Cfg.Apply(lc, args)
	gotArgs, gotReject := f.FilterCmdKey(lc, args)
	switch {
	case gotReject != wantWithheld:
		fs = append(fs, failure{"FilterCmdKey-decision:" + lc, fmt.Sprintf("%s %s: tool withheld=%v, reference withheld=%v", lc, pbt.JSON(c.Cmd.Args), gotReject, wantWithheld)})
	case !gotReject && !eqArgs(gotArgs, wantArgs):
		fs = append(fs, failure{"FilterCmdKey-projection:" + lc, fmt.Sprintf("%s %s: tool forwards %s, reference %s", lc, pbt.JSON(c.Cmd.Args), pbt.JSON(pbt.Bs(gotArgs)), pbt.JSON(pbt.Bs(wantArgs)))})
	}
	st.ClassIf(mixed, "multi-key-mixed-acceptance")
	st.ClassIf(overlapping(c.Cfg.SlotWhite) || overlapping(c.Cfg.SlotBlack), "overlapping-or-nested-ranges")
	st.ClassIf(wantWithheld, "withheld")
	nontrivial = mixed || (len(idx) > 0 && (overlapping(c.Cfg.SlotWhite) || overlapping(c.Cfg.SlotBlack)))
	return fs, nontrivial
}

func TestC10Pure(t *testing.T) {
	rapid.Check(t, func(t *rapid.T) {
		c := PureCase{Cfg: genFilterCfg(t), Cmd: genCmd(t), DB: rapid.IntRange(0, 15).Draw(t, "db")}
		c.Cmd = biasToBlacklist(t, c.Cfg, c.Cmd)
		st := pbt.For(prop)
		st.Case()
		cj := pbt.JSON(c)
		fs, nt := runPure(c)
		if nt {
			st.NonTrivial(cj)
		} else {
			st.Sample(cj)
		}
		for _, f := range fs {
			st.Fail(t, f.sig, f.msg, cj, nil)
		}
	})
}

// ---------------------------------------------------------------- end to end

type E2ECase struct {
	Cfg    filtermodel.Config `json:"cfg"`
	Cmds   []Cmd              `json:"cmds"`
	DBs    []int              `json:"dbs"` // source db of each command
	Keys   []pbt.B            `json:"keys"`
	KeyDBs []int              `json:"keyDbs"`
}

func filterConfig(c filtermodel.Config) config.FilterConfig {
	fc := config.FilterConfig{DbBlacklist: c.DbBlack, CmdBlacklist: c.CmdBlack}
	if len(c.PrefixBlack) > 0 || len(c.PrefixWhite) > 0 {
		fc.KeyFilter = &config.FilterKeyConfig{PrefixKeyWhitelist: c.PrefixWhite, PrefixKeyBlacklist: c.PrefixBlack}
	}
	if len(c.SlotWhite) > 0 || len(c.SlotBlack) > 0 {
		fc.SlotFilter = &config.FilterSlotConfig{KeySlotWhitelist: c.SlotWhite, KeySlotBlacklist: c.SlotBlack}
	}
	return fc
}

func runE2E(c E2ECase) (fs []failure, inconc string, hist any) {
	st := pbt.For(prop)
	gen.QuietLogs()
	// ---- incremental path
	var stream []byte
	var ends []int
	type exp struct {
		db   int
		cmd  string
		args [][]byte
	}
	var want []exp
	cur := -1
	for i, cm := range c.Cmds {
		if c.DBs[i] != cur {
			cur = c.DBs[i]
			stream = append(stream, resp.CmdS("SELECT", strconv.Itoa(cur))...)
			ends = append(ends, len(stream))
		}
		full := append([][]byte{[]byte(cm.Name)}, cm.raw()...)
		stream = append(stream, resp.Cmd(full...)...)
		ends = append(ends, len(stream))
		lc := strings.ToLower(cm.Name)
		if c.Cfg.CmdRejected(lc) || c.Cfg.DbRejected(cur) {
			continue
		}
		a, withheld := c.Cfg.Apply(lc, cm.raw())
		if withheld {
			continue
		}
		want = append(want, exp{cur, lc, a})
	}
	// sentinel without keys: passes every key filter
	endDB := 0
	for c.Cfg.DbRejected(endDB) {
		endDB++
	}
	stream = append(stream, resp.CmdS("SELECT", strconv.Itoa(endDB))...)
	ends = append(ends, len(stream))
	stream = append(stream, resp.CmdS("PUBLISH", "__verif_end", "1")...)
	ends = append(ends, len(stream))

	srv := fake.NewServer()
	srv.GenericWrites = true
	defer srv.Close()
	oc := gen.OutputConfig(gen.OutCfg{BatchCmdCount: 3, BatchBufferSize: 65535, BatchTickerMs: 5, CpTickerMs: 20, KeepaliveMs: 3000, Txn: false, Resume: false, TargetDb: -1}, srv.Addr(), "3333333333333333333333333333333333333333")
	oc.Filter = filterConfig(c.Cfg)
	ro := syncer.NewRedisOutput(oc)
	res := gen.RunSend(ro, srv, gen.Feed{RunID: oc.RunId, Start: 100, Bytes: stream, CmdEnds: ends, Sentinel: []byte("__verif_end"), SentinelCmd: "publish"})
	st.Eval(1)
	log, reqs := srv.SnapshotLog()
	hist = map[string]any{"requests": reqs, "send_err": fmt.Sprint(res.SendErr)}
	if !res.SawEnd {
		if res.TimedOut {
			return nil, "end marker not seen", hist
		}
		return []failure{{"e2e-aof-send-stopped", fmt.Sprintf("Send ended early: %v", res.SendErr)}}, "", hist
	}
	var got []exp
	for _, e := range log {
		if e.Seq > res.EndSeq {
			break
		}
		switch e.Cmd {
		case "ping", "select", "info", "multi", "exec":
			continue
		}
		if e.Cmd == "publish" && len(e.Args) > 0 && string(e.Args[0]) == "__verif_end" {
			continue
		}
		got = append(got, exp{e.DB, e.Cmd, e.Args})
	}
	n := len(want)
	if len(got) < n {
		n = len(got)
	}
	for i := 0; i < n; i++ {
		if want[i].db != got[i].db || want[i].cmd != got[i].cmd || !eqArgs(want[i].args, got[i].args) {
			fs = append(fs, failure{"e2e-aof-mismatch", fmt.Sprintf("incremental path, position %d: target executed db%d %s %s, reference expects db%d %s %s", i, got[i].db, got[i].cmd, pbt.JSON(pbt.Bs(got[i].args)), want[i].db, want[i].cmd, pbt.JSON(pbt.Bs(want[i].args)))})
			return fs, "", hist
		}
	}
	if len(got) != len(want) {
		var extra string
		if len(got) > len(want) {
			extra = fmt.Sprintf("extra: db%d %s %s", got[n].db, got[n].cmd, pbt.JSON(pbt.Bs(got[n].args)))
		} else {
			extra = fmt.Sprintf("missing: db%d %s %s", want[n].db, want[n].cmd, pbt.JSON(pbt.Bs(want[n].args)))
		}
		fs = append(fs, failure{"e2e-aof-count", fmt.Sprintf("incremental path: target executed %d commands, reference expects %d; %s", len(got), len(want), extra)})
		return fs, "", hist
	}

	// ---- snapshot path
	file := rdbgen.File{Version: 11, Checksum: true, Aux: true}
	seen := map[string]bool{}
	for i, k := range c.Keys {
		id := fmt.Sprintf("%d/%s", c.KeyDBs[i], k)
		if seen[id] {
			continue
		}
		seen[id] = true
		file.Items = append(file.Items, rdbgen.Item{DB: c.KeyDBs[i], Key: k, Kind: "string", Str: []byte("v"), Enc: rdbgen.TString})
	}
	if len(file.Items) == 0 {
		return fs, "", hist
	}
	data, metas := rdbgen.Build(file)
	srv2 := fake.NewServer()
	defer srv2.Close()
	fullsync.Register(srv2, metas)
	fcfg := fullsync.Cfg{Restore: len(c.Keys)%2 == 0, MaxBulk: 1 << 29, Parallel: 2, PipeSize: 64, TargetVer: "7.2.0", KeyExists: "replace", SnapOffset: 77}
	oc2 := fullsync.OutputConfig(fcfg, srv2.Addr())
	oc2.Filter = filterConfig(c.Cfg)
	ro2 := syncer.NewRedisOutput(oc2)
	ctx, cancel := context.WithTimeout(context.Background(), 30*time.Second)
	defer cancel()
	err := ro2.Send(ctx, &gen.Reader{R: fullsync.NewBufReader(data), LeftV: 77, RunID: fullsync.RunID, Aof: false, SizeV: int64(len(data))})
	st.Eval(1)
	if err != nil {
		return append(fs, failure{"e2e-rdb-replay-failed", fmt.Sprintf("snapshot replay failed: %v", err)}), "", hist
	}
	ks := srv2.SnapshotKS()
	for _, it := range file.Items {
		wantPresent := !c.Cfg.DbRejected(it.DB) && !c.Cfg.KeyRejected(it.Key)
		e, present := ks.DBs[it.DB][string(it.Key)]
		if present && (e.V.Type != "string" || string(e.V.Str) != "v") {
			present = false // the tool's own bookkeeping hash under that name, not the snapshot's value
		}
		if present != wantPresent {
			sig := "e2e-rdb-key-forwarded-though-rejected"
			if wantPresent {
				sig = "e2e-rdb-key-withheld-though-accepted"
			}
			fs = append(fs, failure{sig, fmt.Sprintf("snapshot key %q (db %d, slot %d): on target=%v, reference accepted=%v", []byte(it.Key), it.DB, hashslot.Slot(it.Key), present, wantPresent)})
		}
	}
	return fs, "", hist
}

func TestC10E2E(t *testing.T) {
	rapid.Check(t, func(t *rapid.T) {
		c := E2ECase{Cfg: genFilterCfg(t)}
		n := rapid.IntRange(1, 12).Draw(t, "ncmds")
		db := rapid.IntRange(0, 15).Draw(t, "db0")
		for i := 0; i < n; i++ {
			if rapid.IntRange(0, 3).Draw(t, "switch") == 0 {
				db = rapid.IntRange(0, 15).Draw(t, "dbn")
			}
			c.Cmds = append(c.Cmds, genCmd(t))
			c.DBs = append(c.DBs, db)
		}
		nk := rapid.IntRange(1, 10).Draw(t, "nkeys")
		for i := 0; i < nk; i++ {
			k := genKey(t)
			if !utf8.Valid(k) && rapid.Bool().Draw(t, "dropBinary") {
				k = []byte("k" + strconv.Itoa(i))
			}
			c.Keys = append(c.Keys, k)
			c.KeyDBs = append(c.KeyDBs, rapid.SampledFrom([]int{0, 0, 1, 3, 15}).Draw(t, "kdb"))
		}
		st := pbt.For(prop)
		st.Case()
		cj := pbt.JSON(c)
		fs, inconc, hist := runE2E(c)
		if inconc != "" {
			st.Inconc(inconc)
			return
		}
		st.NonTrivial(cj)
		for _, f := range fs {
			st.Fail(t, f.sig, f.msg, cj, hist)
		}
	})
}

func FuzzC10(f *testing.F) {
	f.Add([]byte("{a}{b}"), uint16(100), uint16(200), uint16(0), uint16(16383), uint16(150), uint16(160))
	f.Add([]byte("foo"), uint16(0), uint16(16383), uint16(10), uint16(20), uint16(30), uint16(40))
	f.Fuzz(func(t *testing.T, key []byte, a, b, c, d, e, g uint16) {
		cfg := filtermodel.Config{SlotWhite: [][]uint16{{a % 16384, b % 16384}, {c % 16384, d % 16384}, {e % 16384, g % 16384}}}
		pc := PureCase{Cfg: cfg, Cmd: Cmd{Name: "set", Args: []pbt.B{key, []byte("v")}}}
		st := pbt.For(prop)
		st.Case()
		fs, _ := runPure(pc)
		for _, fl := range fs {
			st.Fail(t, fl.sig, fl.msg, pbt.JSON(pc), nil)
		}
	})
}

func TestC10PureReplay(t *testing.T) {
	if os.Getenv("VERIF_REPLAY") == "" {
		t.Skip("no VERIF_REPLAY")
	}
	v, err := pbt.LoadReplay()
	if err != nil {
		t.Fatal(err)
	}
	var c PureCase
	if err := json.Unmarshal(v.Case, &c); err != nil || c.Cmd.Name == "" {
		t.Skip("no such case type")
	}
	fs, _ := runPure(c)
	for _, f := range fs {
		pbt.For(prop).Fail(t, f.sig, f.msg, v.Case, nil)
	}
}

func TestC10E2EReplay(t *testing.T) {
	if os.Getenv("VERIF_REPLAY") == "" {
		t.Skip("no VERIF_REPLAY")
	}
	v, err := pbt.LoadReplay()
	if err != nil {
		t.Fatal(err)
	}
	var c E2ECase
	if err := json.Unmarshal(v.Case, &c); err != nil || len(c.Cmds) == 0 {
		t.Skip("no such case type")
	}
	fs, _, hist := runE2E(c)
	for _, f := range fs {
		pbt.For(prop).Fail(t, f.sig, f.msg, v.Case, hist)
	}
}
