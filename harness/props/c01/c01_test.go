// C01 — incremental replay applies every source write once, in order, in the right DB.
package c01

import (
	"bytes"
	"context"
	"encoding/json"
	"errors"
	"fmt"
	"os"
	"strconv"
	"testing"
	"time"
	"unicode/utf8"

	"pgregory.net/rapid"

	"verifharness/fake"
	"verifharness/gen"
	"verifharness/pbt"
)

const prop = "C01"

func TestMain(m *testing.M) { pbt.Main(m) }

type Case struct {
	Cfg    gen.OutCfg   `json:"cfg"`
	Cmds   []gen.SrcCmd `json:"cmds"`
	Sched  gen.Schedule `json:"sched"`
	Start  int64        `json:"start"`
	IdleMs int          `json:"idleMs,omitempty"`
}

var sentinelKey = []byte("__verif_end")

func genCase(t *rapid.T) Case {
	c := Case{}
	c.Cfg = gen.GenOutCfg(t, nil, nil)
	c.Cmds = gen.GenStream(t, c.Cfg, gen.StreamOpts{MaxCmds: 40})
	c.Sched = gen.GenSchedule(t, c.Cfg, true)
	if rapid.IntRange(0, 4).Draw(t, "pingIdle") == 0 || (len(c.Cfg.DbBlacklist) > 0 && rapid.Bool().Draw(t, "pingIdleInBlacklistedDb")) {
		// (with a database blacklist: keep-alives also arrive while the source stands in a blacklisted database)
		// an idle master: keep-alive PINGs surrounded by idle time, in front of SELECT / MULTI
		c.Cmds, c.Sched = gen.PingIdle(t, c.Cfg, c.Cmds)
	}
	c.Start = rapid.Int64Range(0, 1<<33).Draw(t, "start")
	return c
}

// withSentinel appends "SELECT <allowed db>; SET __verif_end 1".
func withSentinel(c Case) []gen.SrcCmd {
	db := 0
	for d := 0; d < 16; d++ {
		black := false
		for _, b := range c.Cfg.DbBlacklist {
			if b == d {
				black = true
			}
		}
		if !black {
			db = d
			break
		}
	}
	out := append([]gen.SrcCmd{}, c.Cmds...)
	out = append(out, gen.SrcCmd{Name: "SELECT", Args: []pbt.B{[]byte(strconv.Itoa(db))}})
	out = append(out, gen.SrcCmd{Name: "SET", Args: []pbt.B{sentinelKey, []byte("1")}})
	return out
}

type dataCmd struct {
	DB   int
	Cmd  string
	Args [][]byte
}

func infra(e fake.LogEntry) bool {
	switch e.Cmd {
	case "ping", "select", "info", "exists", "multi", "exec", "echo", "auth":
		return true
	}
	if len(e.Args) > 0 && gen.IsReservedKey(e.Args[0]) {
		return true
	}
	return false
}

func dataLog(log []fake.LogEntry) []dataCmd {
	var out []dataCmd
	for _, e := range log {
		if infra(e) {
			continue
		}
		out = append(out, dataCmd{e.DB, e.Cmd, e.Args})
	}
	return out
}

func eqArgs(a, b [][]byte) bool {
	if len(a) != len(b) {
		return false
	}
	for i := range a {
		if !bytes.Equal(a[i], b[i]) {
			return false
		}
	}
	return true
}

type failure struct {
	sig, msg string
	hist     any
}

type verdict struct {
	fails      []failure
	inconc     string
	nontrivial bool
}

// errClass reduces an error to a short root-cause key.
func errClass(err error) string {
	if err == nil {
		return "nil"
	}
	s := err.Error()
	for _, k := range []string{"MULTI calls can not be nested", "EXEC without MULTI", "EXECABORT", "WRONGTYPE", "connection reset", "EOF", "broken pipe", "context canceled"} {
		if bytes.Contains([]byte(s), []byte(k)) {
			return k
		}
	}
	if len(s) > 40 {
		s = s[:40]
	}
	return s
}

func show(d dataCmd) string {
	return fmt.Sprintf("db%d %s %s", d.DB, d.Cmd, pbt.JSON(pbt.Bs(d.Args)))
}

func run(c Case) verdict {
	st := pbt.For(prop)
	st.Eval(1)
	gen.QuietLogs()
	var v verdict
	cmds := withSentinel(c)
	model := gen.Interpret(cmds, c.Cfg, c.Start, -1)
	srv := fake.NewServer()
	srv.GenericWrites = true
	defer srv.Close()
	ids := []string{"1111111111111111111111111111111111111111", "0000000000000000000000000000000000000000"}
	ro, err := gen.StartUp(c.Cfg, srv.Addr(), ids)
	if err != nil {
		v.inconc = "startup: " + err.Error()
		return v
	}
	if _, err := ro.StartPoint(context.Background(), ids); err != nil {
		v.inconc = "startpoint: " + err.Error()
		return v
	}
	ends := make([]int, len(model.Ends))
	for i, e := range model.Ends {
		ends[i] = int(e - c.Start)
	}
	res := gen.RunSend(ro, srv, gen.Feed{RunID: ids[0], Start: c.Start, Bytes: model.Bytes, CmdEnds: ends, Sched: c.Sched, Sentinel: sentinelKey, AfterEndIdleMs: c.IdleMs})
	fullLog, reqs := srv.SnapshotLog()
	// C01 speaks about the uninterrupted run: what the target executed up to and including the
	// sentinel. Whatever the tool does while it is being stopped afterwards belongs to C02.
	var log []fake.LogEntry
	for _, e := range fullLog {
		if !res.SawEnd || e.Seq <= res.EndSeq {
			log = append(log, e)
		}
	}
	got := dataLog(log)
	hist := map[string]any{"target_requests": reqs, "send_err": fmt.Sprint(res.SendErr)}

	if !res.SawEnd {
		if res.TimedOut {
			v.inconc = "sentinel not executed within the time bound"
			return v
		}
		// Send returned before the end of a well-formed stream on a healthy target
		v.fails = append(v.fails, failure{"send-stopped-early:" + errClass(res.SendErr), fmt.Sprintf("Send ended (%v) before the stream was replayed; %d of %d expected commands executed", res.SendErr, len(got), len(model.Expected)), hist})
		return v
	}
	if res.SendErr != nil && !errors.Is(res.SendErr, context.Canceled) {
		v.fails = append(v.fails, failure{"send-error-after-end", fmt.Sprintf("Send returned %v after a graceful stop", res.SendErr), hist})
	}
	// sequence comparison
	exp := make([]dataCmd, len(model.Expected))
	for i, e := range model.Expected {
		exp[i] = dataCmd{e.DB, e.Cmd, e.Args}
	}
	n := len(exp)
	if len(got) < n {
		n = len(got)
	}
	div := -1
	for i := 0; i < n; i++ {
		if exp[i].DB != got[i].DB || exp[i].Cmd != got[i].Cmd || !eqArgs(exp[i].Args, got[i].Args) {
			div = i
			break
		}
	}
	if div < 0 && len(exp) != len(got) {
		div = n
	}
	if div >= 0 {
		sig := "mismatch"
		var e, g string
		if div < len(exp) {
			e = show(exp[div])
		} else {
			e = "<end>"
		}
		if div < len(got) {
			g = show(got[div])
		} else {
			g = "<end>"
		}
		switch {
		case div >= len(got):
			sig = "dropped-tail"
		case div >= len(exp):
			sig = "extra-tail"
		case exp[div].Cmd == got[div].Cmd && eqArgs(exp[div].Args, got[div].Args):
			sig = "wrong-db"
		case div+1 < len(exp) && exp[div+1].Cmd == got[div].Cmd && eqArgs(exp[div+1].Args, got[div].Args):
			sig = "dropped"
		case div > 0 && exp[div-1].Cmd == got[div].Cmd && eqArgs(exp[div-1].Args, got[div].Args):
			sig = "duplicated"
		case exp[div].Cmd == got[div].Cmd && len(exp[div].Args) == len(got[div].Args):
			sig = "altered-args"
		}
		v.fails = append(v.fails, failure{sig, fmt.Sprintf("target data log diverges from the source stream at position %d: expected %s, target executed %s (expected %d commands, target executed %d)", div, e, g, len(exp), len(got)), hist})
	}

	// measured non-triviality
	selects, groups, nonutf, cps := 0, map[int]bool{}, false, 0
	for _, e := range log {
		if e.Cmd == "select" {
			selects++
		}
		if e.InTxn {
			groups[e.Group] = true
		}
		if e.Cmd == "hset" && len(e.Args) > 0 && gen.IsReservedKey(e.Args[0]) {
			cps++
		}
		if !infra(e) {
			for _, a := range e.Args {
				if !utf8.Valid(a) {
					nonutf = true
				}
			}
		}
	}
	srcTxn := false
	for _, e := range model.Expected {
		if e.Txn >= 0 {
			srcTxn = true
		}
	}
	st.ClassIf(selects >= 2, "target-db-changes>=2")
	st.ClassIf(srcTxn, "source-transaction-with-data")
	st.ClassIf(nonutf, "non-utf8-argument")
	st.ClassIf(cps >= 2, "checkpoint-writes>=2")
	st.ClassIf(len(groups) >= 2, "target-exec-groups>=2")
	st.ClassIf(c.Cfg.Txn, "txn-mode")
	st.ClassIf(c.Cfg.Pipeline, "pipeline")
	st.ClassIf(c.Cfg.Resume, "resume")
	st.ClassIf(len(c.Cfg.DbBlacklist) > 0, "db-blacklist")
	st.ClassIf(c.Cfg.TargetDb >= 0, "targetdb")
	st.ClassIf(len(exp) != len(cmds), "has-removals")
	v.nontrivial = selects >= 2 && srcTxn && nonutf && len(exp) >= 4
	return v
}

func check(t pbt.TB, c Case) {
	st := pbt.For(prop)
	cj := pbt.JSON(c)
	st.Case()
	v := run(c)
	if v.inconc != "" {
		st.Inconc(v.inconc)
		return
	}
	if v.nontrivial {
		st.NonTrivial(cj)
	} else {
		st.Sample(cj)
	}
	for _, f := range v.fails {
		st.Fail(t, f.sig, f.msg, cj, f.hist)
	}
}

func TestC01(t *testing.T) {
	rapid.Check(t, func(t *rapid.T) { check(t, genCase(t)) })
}

func TestC01Replay(t *testing.T) {
	if os.Getenv("VERIF_REPLAY") == "" {
		t.Skip("no VERIF_REPLAY")
	}
	v, err := pbt.LoadReplay()
	if err != nil {
		t.Fatal(err)
	}
	var c Case
	if err := json.Unmarshal(v.Case, &c); err != nil {
		t.Fatal(err)
	}
	check(t, c)
	_ = time.Now
}
