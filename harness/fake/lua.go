package fake

import (
	"errors"

	"verifharness/ref/minilua"
	"verifharness/ref/resp"
)

// ExecInternal executes one command on database db (caller holds the server lock, e.g. from an Eval hook).
func (s *Server) ExecInternal(db int, args [][]byte) resp.Reply {
	if len(args) == 0 {
		return resp.Err("ERR empty command")
	}
	cs := &connState{id: -1, db: db}
	name := string(args[0])
	lower := make([]byte, len(name))
	for i := 0; i < len(name); i++ {
		c := name[i]
		if c >= 'A' && c <= 'Z' {
			c += 32
		}
		lower[i] = c
	}
	return s.exec(cs, string(lower), args[1:])
}

// UnsupportedScripts counts EVALs whose script is outside the interpreter's subset.
var ErrLuaUnsupported = minilua.ErrUnsupported

// InstallLua makes EVAL interpret scripts with ref/minilua against this server's keyspace.
func InstallLua(s *Server) {
	s.Eval = func(s *Server, db int, script string, keys, argv [][]byte) resp.Reply {
		ks := make([]string, len(keys))
		for i, k := range keys {
			ks[i] = string(k)
		}
		as := make([]string, len(argv))
		for i, a := range argv {
			as[i] = string(a)
		}
		call := func(args []string) (minilua.Value, error) {
			b := make([][]byte, len(args))
			for i, a := range args {
				b[i] = []byte(a)
			}
			switch r := s.ExecInternal(db, b).(type) {
			case resp.Nil:
				return false, nil
			case resp.Int:
				return float64(r), nil
			case resp.Bulk:
				return string(r), nil
			case resp.Simple:
				return string(r), nil
			case resp.Err:
				return nil, errors.New(string(r))
			default:
				return nil, minilua.ErrUnsupported
			}
		}
		v, err := minilua.Run(script, ks, as, call)
		if err != nil {
			if errors.Is(err, minilua.ErrUnsupported) {
				s.LuaUnsupported++
				return resp.Err("ERR minilua: " + err.Error())
			}
			return resp.Err("ERR Error running script: " + err.Error())
		}
		switch x := v.(type) {
		case float64:
			return resp.Int(int64(x))
		case string:
			return resp.Bulk(x)
		case bool:
			if x {
				return resp.Int(1)
			}
			return resp.Nil{}
		default:
			return resp.Nil{}
		}
	}
}
