package fake

import (
	"sort"
	"strconv"
)

// Value is the typed value model of the double. Exactly one of the payload
// fields is used, according to Type.
type Value struct {
	Type   string             `json:"type"` // string list set zset hash stream opaque
	Str    []byte             `json:"str,omitempty"`
	List   [][]byte           `json:"list,omitempty"`
	Set    map[string]bool    `json:"set,omitempty"`
	ZSet   map[string]float64 `json:"zset,omitempty"`
	Hash   map[string][]byte  `json:"hash,omitempty"`
	Stream *Stream            `json:"stream,omitempty"`
	Opaque []byte             `json:"opaque,omitempty"` // RESTORE payload the registry does not know
}

type StreamID struct{ Ms, Seq uint64 }

func (a StreamID) Less(b StreamID) bool { return a.Ms < b.Ms || (a.Ms == b.Ms && a.Seq < b.Seq) }
func (a StreamID) String() string {
	return strconv.FormatUint(a.Ms, 10) + "-" + strconv.FormatUint(a.Seq, 10)
}

type StreamEntry struct {
	ID     StreamID `json:"id"`
	Fields [][]byte `json:"fields"` // f1 v1 f2 v2 ...
}

type PelEntry struct {
	ID       StreamID `json:"id"`
	Consumer string   `json:"consumer"`
	Time     int64    `json:"time"`
	Count    int64    `json:"count"`
}

type StreamGroup struct {
	Name        string     `json:"name"`
	LastID      StreamID   `json:"last_id"`
	EntriesRead int64      `json:"entries_read"`
	Pel         []PelEntry `json:"pel,omitempty"`
	Consumers   []string   `json:"consumers,omitempty"`
}

type Stream struct {
	Entries      []StreamEntry  `json:"entries"`
	LastID       StreamID       `json:"last_id"`
	EntriesAdded int64          `json:"entries_added"`
	MaxDeleted   StreamID       `json:"max_deleted"`
	Groups       []*StreamGroup `json:"groups,omitempty"`
}

func (s *Stream) group(name string) *StreamGroup {
	for _, g := range s.Groups {
		if g.Name == name {
			return g
		}
	}
	return nil
}

type Entry struct {
	V        *Value
	ExpireAt int64 // absolute ms, 0 = none
}

func (v *Value) Clone() *Value {
	if v == nil {
		return nil
	}
	c := &Value{Type: v.Type}
	c.Str = append([]byte(nil), v.Str...)
	if v.Str != nil && c.Str == nil {
		c.Str = []byte{}
	}
	for _, e := range v.List {
		c.List = append(c.List, append([]byte{}, e...))
	}
	if v.Set != nil {
		c.Set = map[string]bool{}
		for k := range v.Set {
			c.Set[k] = true
		}
	}
	if v.ZSet != nil {
		c.ZSet = map[string]float64{}
		for k, s := range v.ZSet {
			c.ZSet[k] = s
		}
	}
	if v.Hash != nil {
		c.Hash = map[string][]byte{}
		for k, s := range v.Hash {
			c.Hash[k] = append([]byte{}, s...)
		}
	}
	if v.Stream != nil {
		s := &Stream{LastID: v.Stream.LastID, EntriesAdded: v.Stream.EntriesAdded, MaxDeleted: v.Stream.MaxDeleted}
		for _, e := range v.Stream.Entries {
			ne := StreamEntry{ID: e.ID}
			for _, f := range e.Fields {
				ne.Fields = append(ne.Fields, append([]byte{}, f...))
			}
			s.Entries = append(s.Entries, ne)
		}
		for _, g := range v.Stream.Groups {
			ng := &StreamGroup{Name: g.Name, LastID: g.LastID, EntriesRead: g.EntriesRead}
			ng.Pel = append(ng.Pel, g.Pel...)
			ng.Consumers = append(ng.Consumers, g.Consumers...)
			s.Groups = append(s.Groups, ng)
		}
		c.Stream = s
	}
	c.Opaque = append([]byte(nil), v.Opaque...)
	return c
}

// Keyspace is a snapshot-able multi-DB keyspace.
type Keyspace struct {
	DBs [16]map[string]*Entry
}

func NewKeyspace() *Keyspace {
	k := &Keyspace{}
	for i := range k.DBs {
		k.DBs[i] = map[string]*Entry{}
	}
	return k
}

func (k *Keyspace) Clone() *Keyspace {
	c := NewKeyspace()
	for i, db := range k.DBs {
		for key, e := range db {
			c.DBs[i][key] = &Entry{V: e.V.Clone(), ExpireAt: e.ExpireAt}
		}
	}
	return c
}

func (k *Keyspace) Keys(db int) []string {
	out := make([]string, 0, len(k.DBs[db]))
	for key := range k.DBs[db] {
		out = append(out, key)
	}
	sort.Strings(out)
	return out
}
