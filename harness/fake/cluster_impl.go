package fake

import (
	"fmt"
	"net"
	"sort"
	"strconv"
	"strings"
	"sync"
	"sync/atomic"

	"verifharness/ref/hashslot"
	"verifharness/ref/keyspec"
	"verifharness/ref/resp"
)

// ClusterSet is a Redis Cluster made of several Server doubles sharing one slot table. Redirections follow the
// cluster specification: a node executes a command only if it owns the slot (and, while the slot is MIGRATING, still
// has the key) or if the slot is IMPORTING there and the client sent ASKING; otherwise -MOVED / -ASK / -CROSSSLOT /
// -TRYAGAIN. The key-to-slot mapping is ref/hashslot over the keys ref/keyspec finds.
type ClusterSet struct {
	mu        sync.Mutex
	Nodes     []*Server
	owner     [16384]int
	migrating map[int]int             // slot -> destination node index (state at the owner)
	moved     map[int]map[string]bool // slot -> keys that already live at the destination
	Seq       atomic.Int64
	// UnknownKeys: commands outside ref/keyspec are routed by their first argument (generic write); set false to make them keyless.
	Events []string
}

func NewClusterSet(n int) *ClusterSet {
	cs := &ClusterSet{migrating: map[int]int{}, moved: map[int]map[string]bool{}}
	for i := 0; i < n; i++ {
		s := NewServer()
		s.Cluster = &Cluster{impl: &nodeImpl{set: cs, idx: i}}
		s.SeqSource = &cs.Seq
		cs.Nodes = append(cs.Nodes, s)
	}
	// even split
	for slot := 0; slot < 16384; slot++ {
		cs.owner[slot] = slot * n / 16384
	}
	return cs
}

func (cs *ClusterSet) Close() {
	for _, n := range cs.Nodes {
		n.Close()
	}
}

func (cs *ClusterSet) Addrs() []string {
	var out []string
	for _, n := range cs.Nodes {
		out = append(out, n.Addr())
	}
	return out
}

// SetLayout assigns slot ranges: bounds[i] is the first slot of node i+1 (ascending).
func (cs *ClusterSet) SetLayout(bounds []int) {
	cs.mu.Lock()
	defer cs.mu.Unlock()
	node := 0
	for slot := 0; slot < 16384; slot++ {
		for node < len(bounds) && slot >= bounds[node] {
			node++
		}
		cs.owner[slot] = node
	}
}

func (cs *ClusterSet) Owner(slot int) int { cs.mu.Lock(); defer cs.mu.Unlock(); return cs.owner[slot] }

// StartMigration puts the slot into MIGRATING (at its owner) / IMPORTING (at dst); movedKeys already live at dst.
func (cs *ClusterSet) StartMigration(slot, dst int, movedKeys []string) {
	cs.mu.Lock()
	defer cs.mu.Unlock()
	if cs.owner[slot] == dst {
		return
	}
	cs.migrating[slot] = dst
	m := map[string]bool{}
	for _, k := range movedKeys {
		m[k] = true
	}
	cs.moved[slot] = m
	cs.Events = append(cs.Events, fmt.Sprintf("seq<=%d: slot %d MIGRATING %d->%d moved=%q", cs.Seq.Load(), slot, cs.owner[slot], dst, movedKeys))
}

// FinishMigration hands the slot to its destination (or to dst directly when it was not migrating).
func (cs *ClusterSet) FinishMigration(slot, dst int) {
	cs.mu.Lock()
	defer cs.mu.Unlock()
	if d, ok := cs.migrating[slot]; ok {
		dst = d
	}
	cs.Events = append(cs.Events, fmt.Sprintf("seq<=%d: slot %d now owned by %d (was %d)", cs.Seq.Load(), slot, dst, cs.owner[slot]))
	cs.owner[slot] = dst
	delete(cs.migrating, slot)
	delete(cs.moved, slot)
}

type nodeImpl struct {
	set *ClusterSet
	idx int
}

// KeysOf returns the keys of a command per the reference table; commands outside the table count as generic writes on their first argument.
func KeysOf(name string, args [][]byte) [][]byte {
	switch name {
	case "ping", "info", "cluster", "asking", "multi", "exec", "discard", "select", "auth", "command", "echo", "readonly", "readwrite", "client", "script", "function", "publish":
		return nil
	}
	if idx, ok := keyspec.Keys(name, args); ok {
		var out [][]byte
		for _, i := range idx {
			out = append(out, args[i])
		}
		return out
	}
	if name == "exists" || name == "hgetall" || name == "hget" || name == "get" || name == "type" || name == "pttl" || name == "ttl" || name == "hlen" || name == "hexists" || name == "hmget" || name == "smembers" || name == "lrange" {
		if len(args) > 0 {
			return args[:1]
		}
		return nil
	}
	if keyspec.Known(name) {
		return nil
	}
	if len(args) > 0 {
		return args[:1]
	}
	return nil
}

func (n *nodeImpl) addr(i int) string { return n.set.Nodes[i].Addr() }

func (n *nodeImpl) decide(cs *connState, keys [][]byte) resp.Reply {
	if len(keys) == 0 {
		return nil
	}
	slot := int(hashslot.Slot(keys[0]))
	for _, k := range keys[1:] {
		if int(hashslot.Slot(k)) != slot {
			return resp.Err("CROSSSLOT Keys in request don't hash to the same slot")
		}
	}
	set := n.set
	set.mu.Lock()
	defer set.mu.Unlock()
	owner := set.owner[slot]
	dst, mig := set.migrating[slot]
	if owner == n.idx {
		if mig {
			nMoved := 0
			for _, k := range keys {
				if set.moved[slot][string(k)] {
					nMoved++
				}
			}
			if nMoved == len(keys) {
				return resp.Err(fmt.Sprintf("ASK %d %s", slot, n.addr(dst)))
			}
			if nMoved > 0 {
				return resp.Err("TRYAGAIN Multiple keys request during rehashing of slot")
			}
		}
		return nil
	}
	if mig && dst == n.idx && cs.asking {
		// importing: served for keys that already arrived; a key that has not arrived yet would be created here
		// (Redis serves it too when ASKING is set); remember that it now lives here
		for _, k := range keys {
			set.moved[slot][string(k)] = true
		}
		return nil
	}
	return resp.Err(fmt.Sprintf("MOVED %d %s", slot, n.addr(owner)))
}

func (n *nodeImpl) route(s *Server, cs *connState, name string, args [][]byte) resp.Reply {
	return n.decide(cs, KeysOf(name, args))
}

func (n *nodeImpl) routeExec(s *Server, cs *connState, q [][][]byte) resp.Reply {
	var all [][]byte
	for _, c := range q {
		all = append(all, KeysOf(strings.ToLower(string(c[0])), c[1:])...)
	}
	return n.decide(cs, all)
}

func (n *nodeImpl) clusterCmd(s *Server, args [][]byte) resp.Reply {
	if len(args) == 0 {
		return resp.Err("ERR wrong number of arguments for 'cluster' command")
	}
	set := n.set
	switch strings.ToUpper(string(args[0])) {
	case "SLOTS":
		set.mu.Lock()
		defer set.mu.Unlock()
		out := resp.Array{}
		start := 0
		for slot := 1; slot <= 16384; slot++ {
			if slot == 16384 || set.owner[slot] != set.owner[start] {
				host, port, _ := net.SplitHostPort(n.addr(set.owner[start]))
				p, _ := strconv.Atoi(port)
				out = append(out, resp.Array{resp.Int(start), resp.Int(slot - 1), resp.Array{resp.Bulk(host), resp.Int(p), resp.Bulk(fmt.Sprintf("%040d", set.owner[start]))}})
				start = slot
			}
		}
		return out
	case "KEYSLOT":
		if len(args) == 2 {
			return resp.Int(hashslot.Slot(args[1]))
		}
	case "NODES":
		set.mu.Lock()
		defer set.mu.Unlock()
		var lines []string
		for i := range set.Nodes {
			var ranges []string
			start := -1
			for slot := 0; slot <= 16384; slot++ {
				mine := slot < 16384 && set.owner[slot] == i
				if mine && start < 0 {
					start = slot
				}
				if !mine && start >= 0 {
					if start == slot-1 {
						ranges = append(ranges, strconv.Itoa(start))
					} else {
						ranges = append(ranges, fmt.Sprintf("%d-%d", start, slot-1))
					}
					start = -1
				}
			}
			flags := "master"
			if i == n.idx {
				flags = "myself,master"
			}
			host, port, _ := net.SplitHostPort(n.addr(i))
			lines = append(lines, fmt.Sprintf("%040d %s:%s@1%s %s - 0 0 %d connected %s", i, host, port, port, flags, i+1, strings.Join(ranges, " ")))
		}
		sort.Strings(lines)
		return resp.Bulk(strings.Join(lines, "\n") + "\n")
	case "INFO":
		return resp.Bulk("cluster_state:ok\r\ncluster_slots_assigned:16384\r\ncluster_known_nodes:" + strconv.Itoa(len(set.Nodes)) + "\r\n")
	}
	return resp.Err("ERR unknown subcommand")
}

// Ranges returns the slot ranges node i owns under the current table.
func (cs *ClusterSet) Ranges(i int) [][2]int {
	cs.mu.Lock()
	defer cs.mu.Unlock()
	var out [][2]int
	start := -1
	for slot := 0; slot <= 16384; slot++ {
		mine := slot < 16384 && cs.owner[slot] == i
		if mine && start < 0 {
			start = slot
		}
		if !mine && start >= 0 {
			out = append(out, [2]int{start, slot - 1})
			start = -1
		}
	}
	return out
}
