package fake

import (
	"bufio"
	"fmt"
	"net"
	"strconv"
	"strings"
	"sync"
	"time"

	"verifharness/ref/resp"
)

// Source is a Redis master for the PSYNC handshake. Partial resynchronisation is decided exactly as
// masterTryPartialResynchronization does: CONTINUE iff the requested id is the current replication id, or it is
// replid2 and the requested offset is <= second_replid_offset, AND backlog_off <= offset <= backlog_off + histlen,
// where `offset` is the first byte the replica lacks (its own offset + 1).
type Source struct {
	mu sync.Mutex
	ln net.Listener

	ReplID       string
	ReplID2      string // "" = none (all zeros is reported)
	SecondOffset int64  // second_replid_offset (first offset NOT valid under ReplID2 is SecondOffset+1); -1 = none
	MasterOffset int64  // master_repl_offset: bytes produced so far
	BacklogOff   int64  // replication offset of the first byte in the backlog (1-based like Redis: byte number)
	// At returns the byte with 0-based index i of the current history.
	At func(i int64) byte
	// Snapshot returns the snapshot taken at offset off.
	Snapshot func(off int64) []byte
	// StreamExtra: how many bytes beyond MasterOffset the master produces while a replica is attached (new writes arriving).
	StreamExtra int64

	Requests []SourceRequest
	conns    []net.Conn
	closed   bool
}

type SourceRequest struct {
	Cmd   string   `json:"cmd"`
	Args  []string `json:"args"`
	Reply string   `json:"reply,omitempty"`
}

func NewSource() *Source {
	s := &Source{SecondOffset: -1}
	ln, err := Listen()
	if err != nil {
		panic(err)
	}
	s.ln = ln
	go s.accept()
	return s
}

func (s *Source) Addr() string { return s.ln.Addr().String() }

func (s *Source) Close() {
	s.mu.Lock()
	s.closed = true
	for _, c := range s.conns {
		c.Close()
	}
	s.mu.Unlock()
	s.ln.Close()
}

// DropReplicas closes every attached connection (the link to the source breaks).
func (s *Source) DropReplicas() {
	s.mu.Lock()
	for _, c := range s.conns {
		c.Close()
	}
	s.conns = nil
	s.mu.Unlock()
}

func (s *Source) Reqs() []SourceRequest {
	s.mu.Lock()
	defer s.mu.Unlock()
	return append([]SourceRequest(nil), s.Requests...)
}

func (s *Source) accept() {
	for {
		c, err := s.ln.Accept()
		if err != nil {
			return
		}
		s.mu.Lock()
		if s.closed {
			s.mu.Unlock()
			c.Close()
			return
		}
		s.conns = append(s.conns, c)
		s.mu.Unlock()
		go s.serve(c)
	}
}

func (s *Source) info() string {
	id2 := s.ReplID2
	if id2 == "" {
		id2 = "0000000000000000000000000000000000000000"
	}
	return fmt.Sprintf("# Replication\r\nrole:master\r\nconnected_slaves:0\r\nmaster_failover_state:no-failover\r\nmaster_replid:%s\r\nmaster_replid2:%s\r\nmaster_repl_offset:%d\r\nsecond_repl_offset:%d\r\nrepl_backlog_active:1\r\nrepl_backlog_first_byte_offset:%d\r\nrepl_backlog_histlen:%d\r\n",
		s.ReplID, id2, s.MasterOffset, s.SecondOffset, s.BacklogOff, s.MasterOffset-s.BacklogOff+1)
}

func (s *Source) serve(c net.Conn) {
	defer c.Close()
	r := bufio.NewReader(c)
	for {
		args, _, err := resp.ReadCmd(r)
		if err != nil {
			return
		}
		if len(args) == 0 {
			continue
		}
		name := strings.ToLower(string(args[0]))
		strs := make([]string, len(args)-1)
		for i, a := range args[1:] {
			strs[i] = string(a)
		}
		req := SourceRequest{Cmd: name, Args: strs}
		var out []byte
		stream := int64(-1)
		s.mu.Lock()
		switch name {
		case "ping":
			out = []byte("+PONG\r\n")
		case "auth", "select":
			out = []byte("+OK\r\n")
		case "info":
			out = resp.Bulk(s.info()).Append(nil)
		case "replconf":
			if len(strs) > 0 && strings.EqualFold(strs[0], "ack") {
				out = nil
			} else {
				out = []byte("+OK\r\n")
			}
		case "psync":
			if len(strs) != 2 {
				out = []byte("-ERR wrong number of arguments for 'psync' command\r\n")
				break
			}
			off, err := strconv.ParseInt(strs[1], 10, 64)
			histlen := s.MasterOffset - s.BacklogOff + 1
			partial := err == nil && off >= 0 &&
				(strs[0] == s.ReplID || (s.ReplID2 != "" && strs[0] == s.ReplID2 && off <= s.SecondOffset)) &&
				off >= s.BacklogOff && off <= s.BacklogOff+histlen
			if partial {
				out = []byte("+CONTINUE " + s.ReplID + "\r\n")
				req.Reply = "CONTINUE"
				stream = off - 1 // 0-based index of the first byte to send
			} else {
				// new writes may arrive while the snapshot is produced; the snapshot is taken at the current offset
				snapOff := s.MasterOffset
				snap := s.Snapshot(snapOff)
				out = []byte(fmt.Sprintf("+FULLRESYNC %s %d\r\n", s.ReplID, snapOff))
				out = append(out, '\n') // a keep-alive newline while the snapshot is being prepared
				out = append(out, []byte(fmt.Sprintf("$%d\r\n", len(snap)))...)
				out = append(out, snap...)
				req.Reply = fmt.Sprintf("FULLRESYNC %d", snapOff)
				stream = snapOff
			}
		default:
			out = []byte("-ERR unknown command\r\n")
		}
		s.Requests = append(s.Requests, req)
		end := s.MasterOffset + s.StreamExtra
		at := s.At
		s.mu.Unlock()
		if out != nil {
			if _, err := c.Write(out); err != nil {
				return
			}
		}
		if stream >= 0 {
			// the replication link: send the backlog from `stream`, then whatever the master produces meanwhile
			buf := make([]byte, 0, 4096)
			for i := stream; i < end; i++ {
				buf = append(buf, at(i))
				if len(buf) == cap(buf) {
					if _, err := c.Write(buf); err != nil {
						return
					}
					buf = buf[:0]
				}
			}
			if len(buf) > 0 {
				if _, err := c.Write(buf); err != nil {
					return
				}
			}
			s.mu.Lock()
			if end > s.MasterOffset {
				s.MasterOffset = end
			}
			s.mu.Unlock()
			// stay attached: consume REPLCONF ACKs until the link breaks
			for {
				c.SetReadDeadline(time.Now().Add(30 * time.Second))
				if _, _, err := resp.ReadCmd(r); err != nil {
					return
				}
			}
		}
	}
}
