package fake

import (
	"fmt"
	"net"
	"os"
	"sync/atomic"
	"time"
)

var listenSeq atomic.Uint64

// Listen opens a loopback listener on an ephemeral port. Every call uses another address of 127.0.0.0/8 (derived from the
// process id and a counter): long runs open tens of thousands of short-lived connections per minute, and with a single
// address the ephemeral ports (sockets in TIME_WAIT) run out. A bind failure is retried for up to a minute.
func Listen() (net.Listener, error) {
	pid := uint64(os.Getpid())
	var err error
	for attempt := 0; attempt < 600; attempt++ {
		n := listenSeq.Add(1)
		addr := fmt.Sprintf("127.%d.%d.%d:0", 1+pid%200, (pid/200+n/250)%250, 1+n%250)
		var ln net.Listener
		if ln, err = net.Listen("tcp", addr); err == nil {
			return ln, nil
		}
		if attempt%10 == 9 {
			// also try the plain address (a sandbox without the whole 127/8 on lo)
			if ln, e2 := net.Listen("tcp", "127.0.0.1:0"); e2 == nil {
				return ln, nil
			}
		}
		time.Sleep(100 * time.Millisecond)
	}
	return nil, err
}
