// Package fake contains the in-process doubles: a RESP2 Redis server with an
// explicit keyspace model, a total-order request log, crash / error
// injection, cluster-node behaviour and a master-side propagation stream.
//
// The double is written from the Redis command reference and the cluster
// specification; it never imports the repository under test.
package fake

import (
	"bufio"
	"fmt"
	"net"
	"os"
	"runtime/debug"
	"strings"
	"sync"
	"sync/atomic"
	"time"

	"verifharness/ref/resp"
)

// Request is one request as received (including MULTI/EXEC and queued ones).
type Request struct {
	Seq    int      `json:"seq"`
	Conn   int      `json:"conn"`
	Cmd    string   `json:"cmd"`
	Args   [][]byte `json:"-"`
	ArgsS  []string `json:"args"`
	Queued bool     `json:"queued,omitempty"`
	Reply  string   `json:"reply"`
	T      int64    `json:"-"` // wall clock (ns) at which the request was processed
}

// LogEntry is one *executed* command (effects applied, or a read served).
type LogEntry struct {
	Seq   int      `json:"seq"`   // sequence number of the request that caused the execution (EXEC for queued commands)
	Conn  int      `json:"conn"`  // connection id
	DB    int      `json:"db"`    // database the command executed in
	Cmd   string   `json:"cmd"`   // lower case
	Args  [][]byte `json:"-"`     // arguments without the command name
	ArgsS []string `json:"args"`  // quoted form for replay files
	Group int      `json:"group"` // atomic execution group: unique per top-level request, shared by everything run by one EXEC
	InTxn bool     `json:"intxn,omitempty"`
	Reply string   `json:"reply"`
	Node  string   `json:"node,omitempty"`
}

// RestoreCall records one accepted RESTORE.
type RestoreCall struct {
	DB      int
	Key     []byte
	Payload []byte
	TTL     int64
	Replace bool
	AbsTTL  bool
	Args    []string
}

type connState struct {
	id      int
	c       net.Conn
	db      int
	inMulti bool
	dirty   bool // EXECABORT
	queue   [][][]byte
	asking  bool
	closed  bool
	name    string // CLIENT SETNAME
}

type failRule struct {
	pred  func(cmd string, args [][]byte) bool
	reply resp.Reply
	times int
}

type Server struct {
	mu sync.Mutex
	ln net.Listener

	Name string
	KS   *Keyspace
	Reqs []Request
	Log  []LogEntry

	seq       int
	group     int
	connSeq   int
	conns     map[int]*connState
	crashed   bool
	crashAt   int // crash when armedCount reaches this (0 = disarmed)
	armed     int
	failRules []*failRule
	closed    bool

	// NowMs is the double's clock (ms since epoch). Default: wall clock.
	NowMs func() int64
	// OnRequest is called (under the server lock) after every processed request.
	OnRequest func(seq int, cmd string, args [][]byte)
	// OnExec is called (under the lock) for every executed command.
	OnExec func(e *LogEntry)
	// OnCrash is called (under the lock) when an armed crash fires.
	OnCrash func()
	// Delay, when set, is slept (outside the lock) before a request is processed.
	Delay func(cmd string, args [][]byte) time.Duration
	// RestoreRegistry maps a DUMP payload without its 10-byte footer to the value it denotes.
	RestoreRegistry map[string]*Value
	// Scripts: EVAL interpreter (set by the lease tests).
	Eval func(s *Server, db int, script string, keys, argv [][]byte) resp.Reply
	// Cluster, when set, makes this server behave as one node of a cluster.
	Cluster *Cluster
	// Prop, when set, receives the master-side propagation of every effective write.
	Prop *Propagation
	// Info fields
	RunID     string
	RedisVer  string
	FuncLog   [][]byte // FUNCTION RESTORE payloads
	ScriptLog [][]byte
	// GenericWrites: business commands (first argument not a bookkeeping key) are logged and answered +OK without interpretation.
	GenericWrites bool
	// SeqSource, when set, provides request sequence numbers shared by several servers (a cluster): one global order.
	SeqSource *atomic.Int64
	// InfoHook, when set, answers INFO <section> (section lower case, "" = all); nil result falls through to the built-in reply.
	InfoHook       func(section string) []byte
	LuaUnsupported int
	// DropReplyOf: when set and it returns true for a request, the request is executed but the connection is closed instead of replying.
	DropReplyOf func(conn int, cmd string, args [][]byte) bool
	// RefuseOf: when set and it returns true, the connection is closed before the request is executed.
	RefuseOf      func(conn int, cmd string, args [][]byte) bool
	RestoreSeen   []RestoreCall
	MaxRdbVersion uint16
	CommandHook   func(args [][]byte) resp.Reply
	curOrigin     string // name / id of the connection whose request is being executed (read by the propagation)
	curConn       int
	// BadFormatKeys: RESTORE of these keys is answered "ERR Bad data format" (after the BUSYKEY and footer checks, as restoreCommand does).
	BadFormatKeys map[string]bool
	// QuietReq: requests for which it returns true are processed but appear in neither log (bulk scans that would drown the history).
	QuietReq func(cmd string, args [][]byte, reply string) bool
	// CountPred restricts which requests count towards CrashAfter (nil = all).
	CountPred func(cmd string, args [][]byte) bool
}

func NewServer() *Server {
	s := &Server{KS: NewKeyspace(), conns: map[int]*connState{}, RestoreRegistry: map[string]*Value{}, RedisVer: "7.2.0",
		RunID: "aaaaaaaaaaaaaaaaaaaaaaaaaaaaaaaaaaaaaaaa"}
	s.NowMs = func() int64 { return time.Now().UnixNano() / 1e6 }
	ln, err := Listen()
	if err != nil {
		panic(err)
	}
	s.ln = ln
	s.Name = ln.Addr().String()
	go s.acceptLoop()
	return s
}

func (s *Server) Addr() string { return s.ln.Addr().String() }

func (s *Server) Close() {
	s.mu.Lock()
	s.closed = true
	for _, c := range s.conns {
		c.c.Close()
	}
	s.mu.Unlock()
	s.ln.Close()
}

func (s *Server) acceptLoop() {
	for {
		c, err := s.ln.Accept()
		if err != nil {
			return
		}
		s.mu.Lock()
		if s.crashed || s.closed {
			s.mu.Unlock()
			c.Close()
			continue
		}
		s.connSeq++
		cs := &connState{id: s.connSeq, c: c}
		s.conns[cs.id] = cs
		s.mu.Unlock()
		go s.serve(cs)
	}
}

// CrashAfter arms a crash: after n further counted requests have been
// processed the server stops, drops every connection (the reply of the n-th
// request is lost) and refuses new connections until Restart.
func (s *Server) CrashAfter(n int) {
	s.mu.Lock()
	s.crashAt = n
	s.armed = 0
	s.mu.Unlock()
}

func (s *Server) CrashNow() {
	s.mu.Lock()
	s.crashLocked()
	s.mu.Unlock()
}

func (s *Server) crashLocked() {
	s.crashed = true
	s.crashAt = 0
	if s.OnCrash != nil {
		s.OnCrash()
	}
	for id, c := range s.conns {
		c.closed = true
		c.c.Close()
		delete(s.conns, id)
	}
}

func (s *Server) Crashed() bool { s.mu.Lock(); defer s.mu.Unlock(); return s.crashed }

func (s *Server) Restart() {
	s.mu.Lock()
	s.crashed = false
	s.crashAt = 0
	s.mu.Unlock()
}

// DropConns closes every open connection without marking the server crashed.
func (s *Server) DropConns() {
	s.mu.Lock()
	for id, c := range s.conns {
		c.closed = true
		c.c.Close()
		delete(s.conns, id)
	}
	s.mu.Unlock()
}

// FailAt answers the next `times` requests matching pred with the given error reply instead of executing them.
func (s *Server) FailAt(pred func(cmd string, args [][]byte) bool, reply string, times int) {
	s.mu.Lock()
	s.failRules = append(s.failRules, &failRule{pred: pred, reply: resp.Err(reply), times: times})
	s.mu.Unlock()
}

// WaitIdle waits until every connection has been closed by its client and all
// requests buffered on them have been processed (bounded by d).
func (s *Server) WaitIdle(d time.Duration) bool {
	deadline := time.Now().Add(d)
	for {
		s.mu.Lock()
		n := len(s.conns)
		s.mu.Unlock()
		if n == 0 {
			return true
		}
		if time.Now().After(deadline) {
			return false
		}
		time.Sleep(200 * time.Microsecond)
	}
}

func (s *Server) Lock()   { s.mu.Lock() }
func (s *Server) Unlock() { s.mu.Unlock() }

// SnapshotLog returns copies of the logs.
func (s *Server) SnapshotLog() ([]LogEntry, []Request) {
	s.mu.Lock()
	defer s.mu.Unlock()
	return append([]LogEntry(nil), s.Log...), append([]Request(nil), s.Reqs...)
}

func (s *Server) ReqCount() int { s.mu.Lock(); defer s.mu.Unlock(); return len(s.Reqs) }

func (s *Server) SnapshotKS() *Keyspace { s.mu.Lock(); defer s.mu.Unlock(); return s.KS.Clone() }

func (s *Server) ResetLog() { s.mu.Lock(); s.Log = nil; s.Reqs = nil; s.mu.Unlock() }

func quoteArgs(args [][]byte) []string {
	out := make([]string, len(args))
	for i, a := range args {
		if len(a) > 96 {
			out[i] = fmt.Sprintf("%q...(%d bytes)", a[:96], len(a))
		} else {
			out[i] = fmt.Sprintf("%q", a)
		}
	}
	return out
}

func (s *Server) serve(cs *connState) {
	defer func() {
		cs.c.Close()
		s.mu.Lock()
		delete(s.conns, cs.id)
		s.mu.Unlock()
	}()
	defer func() {
		// a panic in a hook (called under the server lock) would otherwise dead-lock the clean-up above and hang the whole check
		if p := recover(); p != nil {
			fmt.Fprintf(os.Stderr, "fake.Server: panic while handling a request: %v\n%s\n", p, debug.Stack())
			os.Exit(3)
		}
	}()
	r := bufio.NewReaderSize(cs.c, 64*1024)
	w := bufio.NewWriterSize(cs.c, 64*1024)
	for {
		args, _, err := resp.ReadCmd(r)
		if err != nil {
			return
		}
		if len(args) == 0 {
			continue
		}
		name := strings.ToLower(string(args[0]))
		if s.Delay != nil {
			if d := s.Delay(name, args[1:]); d > 0 {
				time.Sleep(d)
			}
		}
		s.mu.Lock()
		if s.crashed || cs.closed {
			s.mu.Unlock()
			return
		}
		if s.RefuseOf != nil && s.RefuseOf(cs.id, name, args[1:]) {
			s.mu.Unlock()
			return
		}
		reply := s.handle(cs, name, args[1:])
		if s.DropReplyOf != nil && s.DropReplyOf(cs.id, name, args[1:]) {
			s.mu.Unlock()
			return
		}
		crashNow := false
		if s.crashAt > 0 && (s.CountPred == nil || s.CountPred(name, args[1:])) {
			s.armed++
			if s.armed >= s.crashAt {
				crashNow = true
			}
		}
		if s.OnRequest != nil {
			s.OnRequest(s.seq, name, args[1:])
		}
		if crashNow {
			s.crashLocked()
			s.mu.Unlock()
			return
		}
		s.mu.Unlock()
		if reply != nil {
			buf := reply.Append(nil)
			if _, err := w.Write(buf); err != nil {
				return
			}
		}
		if r.Buffered() == 0 {
			if err := w.Flush(); err != nil {
				return
			}
		}
	}
}

// handle processes one request under the lock.
func (s *Server) handle(cs *connState, name string, args [][]byte) resp.Reply {
	if s.SeqSource != nil {
		s.seq = int(s.SeqSource.Add(1))
	} else {
		s.seq++
	}
	req := Request{Seq: s.seq, Conn: cs.id, Cmd: name, Args: args, ArgsS: quoteArgs(args), T: time.Now().UnixNano()}
	var reply resp.Reply
	defer func() {
		req.Reply = resp.String(reply)
		if len(req.Reply) > 200 {
			req.Reply = req.Reply[:200] + "..."
		}
		if s.QuietReq != nil && s.QuietReq(name, args, req.Reply) {
			return
		}
		s.Reqs = append(s.Reqs, req)
	}()

	for _, fr := range s.failRules {
		if fr.times > 0 && fr.pred(name, args) {
			fr.times--
			reply = fr.reply
			if cs.inMulti && name != "exec" && name != "discard" && name != "multi" {
				cs.dirty = true
			}
			if cs.inMulti && name == "exec" {
				cs.inMulti, cs.queue, cs.dirty = false, nil, false
			}
			return reply
		}
	}

	switch name {
	case "multi":
		if cs.inMulti {
			reply = resp.Err("ERR MULTI calls can not be nested")
			return reply
		}
		cs.inMulti, cs.dirty, cs.queue = true, false, nil
		reply = resp.Simple("OK")
		return reply
	case "discard":
		if !cs.inMulti {
			reply = resp.Err("ERR DISCARD without MULTI")
			return reply
		}
		cs.inMulti, cs.queue, cs.dirty = false, nil, false
		reply = resp.Simple("OK")
		return reply
	case "exec":
		if !cs.inMulti {
			reply = resp.Err("ERR EXEC without MULTI")
			return reply
		}
		q := cs.queue
		dirty := cs.dirty
		cs.inMulti, cs.queue, cs.dirty = false, nil, false
		if dirty {
			reply = resp.Err("EXECABORT Transaction discarded because of previous errors.")
			return reply
		}
		if s.Cluster != nil {
			if r := s.Cluster.routeExec(s, cs, q); r != nil {
				reply = r
				return reply
			}
		}
		s.group++
		g := s.group
		if s.Prop != nil {
			s.Prop.beginTxn()
		}
		out := make(resp.Array, 0, len(q))
		for _, qa := range q {
			qn := strings.ToLower(string(qa[0]))
			out = append(out, s.execLogged(cs, qn, qa[1:], g, true))
		}
		if s.Prop != nil {
			s.Prop.endTxn(s)
		}
		cs.asking = false
		reply = out
		return reply
	}

	if cs.inMulti {
		// queue (with Redis' queue-time validation: unknown arity is not modelled; cluster redirection is)
		if s.Cluster != nil {
			if r := s.Cluster.route(s, cs, name, args); r != nil {
				cs.dirty = true
				reply = r
				return reply
			}
		}
		full := append([][]byte{[]byte(name)}, args...)
		cs.queue = append(cs.queue, full)
		req.Queued = true
		reply = resp.Simple("QUEUED")
		return reply
	}

	if s.Cluster != nil {
		if r := s.Cluster.route(s, cs, name, args); r != nil {
			cs.asking = false
			reply = r
			return reply
		}
	}
	s.group++
	reply = s.execLogged(cs, name, args, s.group, false)
	if name != "asking" {
		cs.asking = false
	}
	return reply
}

func (s *Server) execLogged(cs *connState, name string, args [][]byte, group int, inTxn bool) resp.Reply {
	db := cs.db
	reply := s.exec(cs, name, args)
	rs := resp.String(reply)
	if len(rs) > 120 {
		rs = rs[:120] + "..."
	}
	if s.QuietReq != nil && s.QuietReq(name, args, rs) {
		return reply
	}
	s.Log = append(s.Log, LogEntry{Seq: s.seq, Conn: cs.id, DB: db, Cmd: name, Args: args, ArgsS: quoteArgs(args), Group: group, InTxn: inTxn, Reply: rs, Node: s.Name})
	if s.OnExec != nil {
		s.OnExec(&s.Log[len(s.Log)-1])
	}
	return reply
}
