package fake

import (
	"bytes"
	"encoding/binary"
	"fmt"
	"math"
	"sort"
	"strconv"
	"strings"

	"verifharness/ref/crc64"
	"verifharness/ref/resp"
)

var (
	errWrongType = resp.Err("WRONGTYPE Operation against a key holding the wrong kind of value")
	errSyntax    = resp.Err("ERR syntax error")
	errNotInt    = resp.Err("ERR value is not an integer or out of range")
	ok           = resp.Simple("OK")
)

func errArity(name string) resp.Reply {
	return resp.Err("ERR wrong number of arguments for '" + name + "' command")
}

// lookup returns the live entry (lazy expiry applied).
func (s *Server) lookup(db int, key []byte) *Entry {
	e := s.KS.DBs[db][string(key)]
	if e == nil {
		return nil
	}
	if e.ExpireAt != 0 && s.NowMs() >= e.ExpireAt {
		delete(s.KS.DBs[db], string(key))
		s.propagate(db, []byte("DEL"), key)
		return nil
	}
	return e
}

func (s *Server) setEntry(db int, key []byte, v *Value, keepTTL bool) {
	old := s.KS.DBs[db][string(key)]
	e := &Entry{V: v}
	if keepTTL && old != nil {
		e.ExpireAt = old.ExpireAt
	}
	s.KS.DBs[db][string(key)] = e
}

func (s *Server) del(db int, key []byte) bool {
	if s.lookup(db, key) == nil {
		return false
	}
	delete(s.KS.DBs[db], string(key))
	return true
}

func (s *Server) propagate(db int, args ...[]byte) {
	if s.Prop != nil {
		s.Prop.emit(s, db, args)
	}
}

var infraCmd = map[string]bool{"ping": true, "echo": true, "auth": true, "select": true, "info": true, "cluster": true, "command": true,
	"asking": true, "readonly": true, "readwrite": true, "client": true, "dbsize": true, "script": true, "function": true, "eval": true, "keys": true}

func bs(s string) []byte  { return []byte(s) }
func itob(n int64) []byte { return []byte(strconv.FormatInt(n, 10)) }

func parseInt(b []byte) (int64, bool) {
	n, err := strconv.ParseInt(string(b), 10, 64)
	return n, err == nil
}

func fmtScore(f float64) []byte {
	if math.IsInf(f, 1) {
		return bs("inf")
	}
	if math.IsInf(f, -1) {
		return bs("-inf")
	}
	return []byte(strconv.FormatFloat(f, 'g', 17, 64))
}

func parseScore(b []byte) (float64, bool) {
	s := strings.ToLower(string(b))
	switch s {
	case "inf", "+inf":
		return math.Inf(1), true
	case "-inf":
		return math.Inf(-1), true
	case "nan":
		return 0, false
	}
	f, err := strconv.ParseFloat(s, 64)
	if err != nil || math.IsNaN(f) {
		return 0, false
	}
	return f, true
}

func parseStreamID(b []byte) (StreamID, bool) {
	parts := strings.SplitN(string(b), "-", 2)
	ms, err := strconv.ParseUint(parts[0], 10, 64)
	if err != nil {
		return StreamID{}, false
	}
	var seq uint64
	if len(parts) == 2 {
		seq, err = strconv.ParseUint(parts[1], 10, 64)
		if err != nil {
			return StreamID{}, false
		}
	}
	return StreamID{ms, seq}, true
}

func (s *Server) full(name string, args [][]byte) [][]byte {
	return append([][]byte{[]byte(strings.ToUpper(name))}, args...)
}

// exec executes one command on the keyspace and returns its reply.
func (s *Server) exec(cs *connState, name string, args [][]byte) resp.Reply {
	db := cs.db
	s.curOrigin, s.curConn = cs.name, cs.id
	if name == "client" && len(args) == 2 && strings.EqualFold(string(args[0]), "setname") {
		cs.name = string(args[1])
		return ok
	}
	if s.GenericWrites && len(args) > 0 && (!infraCmd[name] || ((name == "eval" || name == "evalsha") && s.Eval == nil)) && !bytes.HasPrefix(args[0], []byte("redis-gunyu-checkpoint")) && !bytes.HasPrefix(args[0], []byte("redis-gunyu-bisync")) && !bytes.HasPrefix(args[0], []byte("/redis-gunyu")) {
		// log-only mode: business commands are recorded and acknowledged, never interpreted
		s.propagate(db, s.full(name, args)...)
		return ok
	}
	switch name {
	case "ping":
		if len(args) == 1 {
			return resp.Bulk(args[0])
		}
		return resp.Simple("PONG")
	case "echo":
		if len(args) != 1 {
			return errArity(name)
		}
		return resp.Bulk(args[0])
	case "auth", "readonly", "readwrite", "client", "replconf":
		return ok
	case "asking":
		cs.asking = true
		return ok
	case "select":
		if len(args) != 1 {
			return errArity(name)
		}
		n, okk := parseInt(args[0])
		if !okk || n < 0 || n > 15 {
			return resp.Err("ERR DB index is out of range")
		}
		if s.Cluster != nil && n != 0 {
			return resp.Err("ERR SELECT is not allowed in cluster mode")
		}
		cs.db = int(n)
		return ok
	case "info":
		if s.InfoHook != nil {
			sec := ""
			if len(args) > 0 {
				sec = strings.ToLower(string(args[0]))
			}
			if b := s.InfoHook(sec); b != nil && sec != "keyspace" {
				return resp.Bulk(b)
			}
		}
		return resp.Bulk(s.info(args))
	case "dbsize":
		n := 0
		for k := range s.KS.DBs[db] {
			if s.lookup(db, []byte(k)) != nil {
				n++
			}
		}
		return resp.Int(n)
	case "exists":
		n := 0
		for _, k := range args {
			if s.lookup(db, k) != nil {
				n++
			}
		}
		return resp.Int(n)
	case "del", "unlink":
		if len(args) == 0 {
			return errArity(name)
		}
		n := 0
		var gone [][]byte
		for _, k := range args {
			if s.del(db, k) {
				n++
				gone = append(gone, k)
			}
		}
		if n > 0 {
			s.propagate(db, append([][]byte{bs(strings.ToUpper(name))}, gone...)...)
		}
		return resp.Int(n)
	case "type":
		e := s.lookup(db, args[0])
		if e == nil {
			return resp.Simple("none")
		}
		return resp.Simple(e.V.Type)
	case "keys":
		out := resp.Array{}
		for _, k := range s.KS.Keys(db) {
			if s.lookup(db, []byte(k)) != nil {
				out = append(out, resp.Bulk(k))
			}
		}
		return out
	case "flushall", "flushdb":
		for i := range s.KS.DBs {
			if name == "flushall" || i == db {
				s.KS.DBs[i] = map[string]*Entry{}
			}
		}
		s.propagate(db, s.full(name, args)...)
		return ok
	case "get":
		if len(args) != 1 {
			return errArity(name)
		}
		e := s.lookup(db, args[0])
		if e == nil {
			return resp.Nil{}
		}
		if e.V.Type != "string" {
			return errWrongType
		}
		return resp.Bulk(e.V.Str)
	case "set":
		return s.cmdSet(db, args)
	case "setnx":
		if len(args) != 2 {
			return errArity(name)
		}
		if s.lookup(db, args[0]) != nil {
			return resp.Int(0)
		}
		s.setEntry(db, args[0], &Value{Type: "string", Str: args[1]}, false)
		s.propagate(db, s.full(name, args)...)
		return resp.Int(1)
	case "setex", "psetex":
		if len(args) != 3 {
			return errArity(name)
		}
		n, okk := parseInt(args[1])
		if !okk || n <= 0 {
			return resp.Err("ERR invalid expire time in '" + name + "' command")
		}
		if name == "setex" {
			n *= 1000
		}
		s.setEntry(db, args[0], &Value{Type: "string", Str: args[2]}, false)
		at := s.NowMs() + n
		s.KS.DBs[db][string(args[0])].ExpireAt = at
		if s.Prop != nil && s.Prop.Flavor7 {
			s.propagate(db, bs("SET"), args[0], args[2], bs("PXAT"), itob(at))
		} else {
			s.propagate(db, s.full(name, args)...)
		}
		return ok
	case "mset":
		if len(args) == 0 || len(args)%2 != 0 {
			return errArity(name)
		}
		for i := 0; i < len(args); i += 2 {
			s.setEntry(db, args[i], &Value{Type: "string", Str: args[i+1]}, false)
		}
		s.propagate(db, s.full(name, args)...)
		return ok
	case "append":
		if len(args) != 2 {
			return errArity(name)
		}
		e := s.lookup(db, args[0])
		if e == nil {
			s.setEntry(db, args[0], &Value{Type: "string", Str: append([]byte{}, args[1]...)}, false)
			s.propagate(db, s.full(name, args)...)
			return resp.Int(len(args[1]))
		}
		if e.V.Type != "string" {
			return errWrongType
		}
		e.V.Str = append(append([]byte{}, e.V.Str...), args[1]...)
		s.propagate(db, s.full(name, args)...)
		return resp.Int(len(e.V.Str))
	case "incr", "decr", "incrby", "decrby":
		var delta int64 = 1
		if name == "incrby" || name == "decrby" {
			if len(args) != 2 {
				return errArity(name)
			}
			d, okk := parseInt(args[1])
			if !okk {
				return errNotInt
			}
			delta = d
		} else if len(args) != 1 {
			return errArity(name)
		}
		if name == "decr" || name == "decrby" {
			delta = -delta
		}
		e := s.lookup(db, args[0])
		var cur int64
		if e != nil {
			if e.V.Type != "string" {
				return errWrongType
			}
			c, okk := parseInt(e.V.Str)
			if !okk {
				return errNotInt
			}
			cur = c
		}
		cur += delta
		if e == nil {
			s.setEntry(db, args[0], &Value{Type: "string", Str: itob(cur)}, false)
		} else {
			e.V.Str = itob(cur)
		}
		s.propagate(db, s.full(name, args)...)
		return resp.Int(cur)
	case "expire", "pexpire", "expireat", "pexpireat":
		if len(args) < 2 {
			return errArity(name)
		}
		n, okk := parseInt(args[1])
		if !okk {
			return errNotInt
		}
		e := s.lookup(db, args[0])
		if e == nil {
			return resp.Int(0)
		}
		at := n
		switch name {
		case "expire":
			at = s.NowMs() + n*1000
		case "pexpire":
			at = s.NowMs() + n
		case "expireat":
			at = n * 1000
		}
		if at <= s.NowMs() {
			delete(s.KS.DBs[db], string(args[0]))
			s.propagate(db, bs("DEL"), args[0])
			return resp.Int(1)
		}
		e.ExpireAt = at
		if s.Prop != nil && s.Prop.Flavor7 {
			s.propagate(db, bs("PEXPIREAT"), args[0], itob(at))
		} else {
			s.propagate(db, s.full(name, args)...)
		}
		return resp.Int(1)
	case "persist":
		e := s.lookup(db, args[0])
		if e == nil || e.ExpireAt == 0 {
			return resp.Int(0)
		}
		e.ExpireAt = 0
		s.propagate(db, s.full(name, args)...)
		return resp.Int(1)
	case "pttl", "ttl":
		e := s.lookup(db, args[0])
		if e == nil {
			return resp.Int(-2)
		}
		if e.ExpireAt == 0 {
			return resp.Int(-1)
		}
		d := e.ExpireAt - s.NowMs()
		if name == "ttl" {
			d = (d + 500) / 1000
		}
		return resp.Int(d)
	case "rpush", "lpush":
		if len(args) < 2 {
			return errArity(name)
		}
		e := s.lookup(db, args[0])
		if e == nil {
			s.setEntry(db, args[0], &Value{Type: "list"}, false)
			e = s.KS.DBs[db][string(args[0])]
		} else if e.V.Type != "list" {
			return errWrongType
		}
		for _, v := range args[1:] {
			if name == "rpush" {
				e.V.List = append(e.V.List, v)
			} else {
				e.V.List = append([][]byte{v}, e.V.List...)
			}
		}
		s.propagate(db, s.full(name, args)...)
		return resp.Int(len(e.V.List))
	case "lrange":
		e := s.lookup(db, args[0])
		if e == nil {
			return resp.Array{}
		}
		if e.V.Type != "list" {
			return errWrongType
		}
		out := resp.Array{}
		for _, v := range e.V.List {
			out = append(out, resp.Bulk(v))
		}
		return out
	case "sadd", "srem":
		if len(args) < 2 {
			return errArity(name)
		}
		e := s.lookup(db, args[0])
		if e == nil {
			if name == "srem" {
				return resp.Int(0)
			}
			s.setEntry(db, args[0], &Value{Type: "set", Set: map[string]bool{}}, false)
			e = s.KS.DBs[db][string(args[0])]
		} else if e.V.Type != "set" {
			return errWrongType
		}
		n := 0
		for _, m := range args[1:] {
			if name == "sadd" {
				if !e.V.Set[string(m)] {
					e.V.Set[string(m)] = true
					n++
				}
			} else if e.V.Set[string(m)] {
				delete(e.V.Set, string(m))
				n++
			}
		}
		if len(e.V.Set) == 0 {
			delete(s.KS.DBs[db], string(args[0]))
		}
		if n > 0 {
			s.propagate(db, s.full(name, args)...)
		}
		return resp.Int(n)
	case "smembers":
		e := s.lookup(db, args[0])
		if e == nil {
			return resp.Array{}
		}
		if e.V.Type != "set" {
			return errWrongType
		}
		ms := []string{}
		for m := range e.V.Set {
			ms = append(ms, m)
		}
		sort.Strings(ms)
		out := resp.Array{}
		for _, m := range ms {
			out = append(out, resp.Bulk(m))
		}
		return out
	case "zadd":
		if len(args) < 3 || len(args)%2 != 1 {
			return errSyntax
		}
		e := s.lookup(db, args[0])
		if e != nil && e.V.Type != "zset" {
			return errWrongType
		}
		type pair struct {
			m string
			f float64
		}
		var ps []pair
		for i := 1; i < len(args); i += 2 {
			f, okk := parseScore(args[i])
			if !okk {
				return resp.Err("ERR value is not a valid float")
			}
			ps = append(ps, pair{string(args[i+1]), f})
		}
		if e == nil {
			s.setEntry(db, args[0], &Value{Type: "zset", ZSet: map[string]float64{}}, false)
			e = s.KS.DBs[db][string(args[0])]
		}
		n := 0
		for _, p := range ps {
			if _, ex := e.V.ZSet[p.m]; !ex {
				n++
			}
			e.V.ZSet[p.m] = p.f
		}
		s.propagate(db, s.full(name, args)...)
		return resp.Int(n)
	case "zrangebyscore":
		if len(args) < 3 {
			return errArity(name)
		}
		lo, ok1 := parseScore(args[1])
		hi, ok2 := parseScore(args[2])
		if !ok1 || !ok2 {
			return resp.Err("ERR min or max is not a float")
		}
		e := s.lookup(db, args[0])
		if e == nil {
			return resp.Array{}
		}
		if e.V.Type != "zset" {
			return errWrongType
		}
		var ms []string
		for m, f := range e.V.ZSet {
			if f >= lo && f <= hi {
				ms = append(ms, m)
			}
		}
		sort.Slice(ms, func(a, b int) bool {
			if e.V.ZSet[ms[a]] != e.V.ZSet[ms[b]] {
				return e.V.ZSet[ms[a]] < e.V.ZSet[ms[b]]
			}
			return ms[a] < ms[b]
		})
		out := resp.Array{}
		for _, m := range ms {
			out = append(out, resp.Bulk(m))
		}
		return out
	case "zrem":
		e := s.lookup(db, args[0])
		if e == nil {
			return resp.Int(0)
		}
		if e.V.Type != "zset" {
			return errWrongType
		}
		n := 0
		for _, m := range args[1:] {
			if _, ex := e.V.ZSet[string(m)]; ex {
				delete(e.V.ZSet, string(m))
				n++
			}
		}
		if len(e.V.ZSet) == 0 {
			delete(s.KS.DBs[db], string(args[0]))
		}
		if n > 0 {
			s.propagate(db, s.full(name, args)...)
		}
		return resp.Int(n)
	case "hset", "hmset", "hsetnx":
		if len(args) < 3 || (name != "hsetnx" && len(args)%2 != 1) || (name == "hsetnx" && len(args) != 3) {
			return errArity(name)
		}
		e := s.lookup(db, args[0])
		if e == nil {
			s.setEntry(db, args[0], &Value{Type: "hash", Hash: map[string][]byte{}}, false)
			e = s.KS.DBs[db][string(args[0])]
		} else if e.V.Type != "hash" {
			return errWrongType
		}
		n := 0
		if name == "hsetnx" {
			if _, ex := e.V.Hash[string(args[1])]; ex {
				return resp.Int(0)
			}
			e.V.Hash[string(args[1])] = args[2]
			s.propagate(db, s.full(name, args)...)
			return resp.Int(1)
		}
		for i := 1; i < len(args); i += 2 {
			if _, ex := e.V.Hash[string(args[i])]; !ex {
				n++
			}
			e.V.Hash[string(args[i])] = args[i+1]
		}
		s.propagate(db, s.full(name, args)...)
		if name == "hmset" {
			return ok
		}
		return resp.Int(n)
	case "hget":
		if len(args) != 2 {
			return errArity(name)
		}
		e := s.lookup(db, args[0])
		if e == nil {
			return resp.Nil{}
		}
		if e.V.Type != "hash" {
			return errWrongType
		}
		v, ex := e.V.Hash[string(args[1])]
		if !ex {
			return resp.Nil{}
		}
		return resp.Bulk(v)
	case "hmget":
		e := s.lookup(db, args[0])
		out := resp.Array{}
		for _, f := range args[1:] {
			if e == nil || e.V.Type != "hash" {
				out = append(out, resp.Nil{})
				continue
			}
			v, ex := e.V.Hash[string(f)]
			if !ex {
				out = append(out, resp.Nil{})
			} else {
				out = append(out, resp.Bulk(v))
			}
		}
		return out
	case "hgetall":
		e := s.lookup(db, args[0])
		if e == nil {
			return resp.Array{}
		}
		if e.V.Type != "hash" {
			return errWrongType
		}
		fs := []string{}
		for f := range e.V.Hash {
			fs = append(fs, f)
		}
		sort.Strings(fs)
		out := resp.Array{}
		for _, f := range fs {
			out = append(out, resp.Bulk(f), resp.Bulk(e.V.Hash[f]))
		}
		return out
	case "hlen":
		e := s.lookup(db, args[0])
		if e == nil {
			return resp.Int(0)
		}
		if e.V.Type != "hash" {
			return errWrongType
		}
		return resp.Int(len(e.V.Hash))
	case "hdel":
		if len(args) < 2 {
			return errArity(name)
		}
		e := s.lookup(db, args[0])
		if e == nil {
			return resp.Int(0)
		}
		if e.V.Type != "hash" {
			return errWrongType
		}
		n := 0
		for _, f := range args[1:] {
			if _, ex := e.V.Hash[string(f)]; ex {
				delete(e.V.Hash, string(f))
				n++
			}
		}
		if len(e.V.Hash) == 0 {
			delete(s.KS.DBs[db], string(args[0]))
		}
		if n > 0 {
			s.propagate(db, s.full(name, args)...)
		}
		return resp.Int(n)
	case "hexists":
		e := s.lookup(db, args[0])
		if e == nil || e.V.Type != "hash" {
			return resp.Int(0)
		}
		if _, ex := e.V.Hash[string(args[1])]; ex {
			return resp.Int(1)
		}
		return resp.Int(0)
	case "xadd":
		return s.cmdXadd(db, args)
	case "xsetid":
		return s.cmdXsetid(db, args)
	case "xgroup":
		return s.cmdXgroup(db, args)
	case "xclaim":
		return s.cmdXclaim(db, args)
	case "restore":
		return s.cmdRestore(db, args)
	case "script":
		if len(args) >= 2 && strings.EqualFold(string(args[0]), "load") {
			s.ScriptLog = append(s.ScriptLog, args[1])
			return resp.Bulk(fmt.Sprintf("%040x", crc64.Sum(args[1])))
		}
		return ok
	case "function":
		if len(args) >= 2 && strings.EqualFold(string(args[0]), "restore") {
			s.FuncLog = append(s.FuncLog, args[1])
		}
		return ok
	case "eval":
		if s.Eval == nil || len(args) < 2 {
			return resp.Err("ERR EVAL not supported by this double")
		}
		nk, okk := parseInt(args[1])
		if !okk || int(nk) > len(args)-2 || nk < 0 {
			return resp.Err("ERR Number of keys can't be greater than number of args")
		}
		return s.Eval(s, db, string(args[0]), args[2:2+nk], args[2+nk:])
	case "cluster":
		if s.Cluster != nil {
			return s.Cluster.clusterCmd(s, args)
		}
		return resp.Err("ERR This instance has cluster support disabled")
	case "command":
		if s.CommandHook != nil {
			return s.CommandHook(args)
		}
		return resp.Array{}
	case "publish":
		s.propagate(db, s.full(name, args)...)
		return resp.Int(0)
	}
	// generic write: logged, answered +OK, propagated verbatim
	s.propagate(db, s.full(name, args)...)
	return ok
}

func (s *Server) info(args [][]byte) []byte {
	sec := "all"
	if len(args) > 0 {
		sec = strings.ToLower(string(args[0]))
	}
	var b bytes.Buffer
	if sec == "server" || sec == "all" {
		fmt.Fprintf(&b, "# Server\r\nredis_version:%s\r\nrun_id:%s\r\n", s.RedisVer, s.RunID)
		if s.Cluster != nil {
			b.WriteString("redis_mode:cluster\r\n")
		} else {
			b.WriteString("redis_mode:standalone\r\n")
		}
		b.WriteString("\r\n")
	}
	if sec == "replication" || sec == "all" {
		fmt.Fprintf(&b, "# Replication\r\nrole:master\r\nconnected_slaves:0\r\nmaster_replid:%s\r\nmaster_replid2:0000000000000000000000000000000000000000\r\nmaster_repl_offset:0\r\nsecond_repl_offset:-1\r\n\r\n", s.RunID)
	}
	if sec == "cluster" || sec == "all" {
		if s.Cluster != nil {
			b.WriteString("# Cluster\r\ncluster_enabled:1\r\n\r\n")
		} else {
			b.WriteString("# Cluster\r\ncluster_enabled:0\r\n\r\n")
		}
	}
	if sec == "keyspace" || sec == "all" {
		b.WriteString("# Keyspace\r\n")
		for i := range s.KS.DBs {
			n, ex := 0, 0
			for k := range s.KS.DBs[i] {
				if e := s.lookup(i, []byte(k)); e != nil {
					n++
					if e.ExpireAt != 0 {
						ex++
					}
				}
			}
			if n > 0 {
				fmt.Fprintf(&b, "db%d:keys=%d,expires=%d,avg_ttl=0\r\n", i, n, ex)
			}
		}
	}
	return b.Bytes()
}

func (s *Server) cmdSet(db int, args [][]byte) resp.Reply {
	if len(args) < 2 {
		return errArity("set")
	}
	var nx, xx, keepttl, get bool
	var at int64
	for i := 2; i < len(args); i++ {
		o := strings.ToUpper(string(args[i]))
		switch o {
		case "NX":
			nx = true
		case "XX":
			xx = true
		case "KEEPTTL":
			keepttl = true
		case "GET":
			get = true
		case "EX", "PX", "EXAT", "PXAT":
			if i+1 >= len(args) {
				return errSyntax
			}
			n, okk := parseInt(args[i+1])
			if !okk || n <= 0 {
				return resp.Err("ERR invalid expire time in 'set' command")
			}
			switch o {
			case "EX":
				at = s.NowMs() + n*1000
			case "PX":
				at = s.NowMs() + n
			case "EXAT":
				at = n * 1000
			case "PXAT":
				at = n
			}
			i++
		default:
			return errSyntax
		}
	}
	e := s.lookup(db, args[0])
	var old resp.Reply = resp.Nil{}
	if get && e != nil {
		if e.V.Type != "string" {
			return errWrongType
		}
		old = resp.Bulk(e.V.Str)
	}
	if (nx && e != nil) || (xx && e == nil) {
		if get {
			return old
		}
		return resp.Nil{}
	}
	s.setEntry(db, args[0], &Value{Type: "string", Str: args[1]}, keepttl)
	if at != 0 {
		s.KS.DBs[db][string(args[0])].ExpireAt = at
	}
	// propagation: 7.x rewrites relative expiries to PXAT and drops NX/XX/GET
	if s.Prop != nil && s.Prop.Flavor7 && at != 0 {
		p := [][]byte{bs("SET"), args[0], args[1], bs("PXAT"), itob(at)}
		s.propagate(db, p...)
	} else {
		s.propagate(db, s.full("set", args)...)
	}
	if get {
		return old
	}
	return ok
}

func (s *Server) stream(db int, key []byte, create bool) (*Stream, resp.Reply) {
	e := s.lookup(db, key)
	if e == nil {
		if !create {
			return nil, nil
		}
		s.setEntry(db, key, &Value{Type: "stream", Stream: &Stream{}}, false)
		e = s.KS.DBs[db][string(key)]
	} else if e.V.Type != "stream" {
		return nil, errWrongType
	}
	return e.V.Stream, nil
}

func (s *Server) cmdXadd(db int, args [][]byte) resp.Reply {
	// XADD key [NOMKSTREAM] [MAXLEN|MINID [=|~] threshold [LIMIT n]] id field value ...
	if len(args) < 4 {
		return errArity("xadd")
	}
	i := 1
	maxlen := int64(-1)
	for i < len(args) {
		o := strings.ToUpper(string(args[i]))
		if o == "NOMKSTREAM" {
			i++
			continue
		}
		if o == "MAXLEN" {
			i++
			if i < len(args) && (string(args[i]) == "=" || string(args[i]) == "~") {
				i++
			}
			if i >= len(args) {
				return errSyntax
			}
			n, okk := parseInt(args[i])
			if !okk {
				return errNotInt
			}
			maxlen = n
			i++
			continue
		}
		break
	}
	if i >= len(args) {
		return errSyntax
	}
	idArg := args[i]
	fields := args[i+1:]
	if len(fields) == 0 || len(fields)%2 != 0 {
		return errArity("xadd")
	}
	st, er := s.stream(db, args[0], true)
	if er != nil {
		return er
	}
	var id StreamID
	if string(idArg) == "*" {
		ms := uint64(s.NowMs())
		if ms <= st.LastID.Ms {
			id = StreamID{st.LastID.Ms, st.LastID.Seq + 1}
		} else {
			id = StreamID{ms, 0}
		}
	} else {
		p, okk := parseStreamID(idArg)
		if !okk {
			return resp.Err("ERR Invalid stream ID specified as stream command argument")
		}
		id = p
		if id.Ms == 0 && id.Seq == 0 {
			return resp.Err("ERR The ID specified in XADD must be greater than 0-0")
		}
		if !st.LastID.Less(id) {
			return resp.Err("ERR The ID specified in XADD is equal or smaller than the target stream top item")
		}
	}
	st.Entries = append(st.Entries, StreamEntry{ID: id, Fields: fields})
	st.LastID = id
	st.EntriesAdded++
	if maxlen >= 0 {
		for int64(len(st.Entries)) > maxlen {
			if st.MaxDeleted.Less(st.Entries[0].ID) {
				st.MaxDeleted = st.Entries[0].ID
			}
			st.Entries = st.Entries[1:]
		}
	}
	s.propagate(db, s.full("xadd", args)...)
	return resp.Bulk(id.String())
}

func (s *Server) cmdXsetid(db int, args [][]byte) resp.Reply {
	// XSETID key last-id [ENTRIESADDED n] [MAXDELETEDID id]
	if len(args) < 2 {
		return errArity("xsetid")
	}
	st, er := s.stream(db, args[0], false)
	if er != nil {
		return er
	}
	if st == nil {
		return resp.Err("ERR no such key")
	}
	id, okk := parseStreamID(args[1])
	if !okk {
		return resp.Err("ERR Invalid stream ID specified as stream command argument")
	}
	if len(st.Entries) > 0 && id.Less(st.Entries[len(st.Entries)-1].ID) {
		return resp.Err("ERR The ID specified in XSETID is smaller than the target stream top item")
	}
	for i := 2; i+1 < len(args); i += 2 {
		switch strings.ToUpper(string(args[i])) {
		case "ENTRIESADDED":
			n, okk := parseInt(args[i+1])
			if !okk {
				return errNotInt
			}
			if n < int64(len(st.Entries)) {
				return resp.Err("ERR The entries_added specified in XSETID is smaller than the target stream length")
			}
			st.EntriesAdded = n
		case "MAXDELETEDID":
			m, okk := parseStreamID(args[i+1])
			if !okk {
				return resp.Err("ERR Invalid stream ID specified as stream command argument")
			}
			if id.Less(m) {
				return resp.Err("ERR The ID specified in XSETID is smaller than the provided max_deleted_entry_id")
			}
			st.MaxDeleted = m
		default:
			return errSyntax
		}
	}
	st.LastID = id
	s.propagate(db, s.full("xsetid", args)...)
	return ok
}

func (s *Server) cmdXgroup(db int, args [][]byte) resp.Reply {
	if len(args) < 3 {
		return errArity("xgroup")
	}
	sub := strings.ToUpper(string(args[0]))
	switch sub {
	case "CREATE":
		// XGROUP CREATE key group id|$ [MKSTREAM] [ENTRIESREAD n]
		if len(args) < 4 {
			return errArity("xgroup")
		}
		mk := false
		er := int64(0)
		hasER := false
		for i := 4; i < len(args); i++ {
			switch strings.ToUpper(string(args[i])) {
			case "MKSTREAM":
				mk = true
			case "ENTRIESREAD":
				if i+1 >= len(args) {
					return errSyntax
				}
				n, okk := parseInt(args[i+1])
				if !okk {
					return errNotInt
				}
				er, hasER = n, true
				i++
			default:
				return errSyntax
			}
		}
		st, e := s.stream(db, args[1], mk)
		if e != nil {
			return e
		}
		if st == nil {
			return resp.Err("ERR The XGROUP subcommand requires the key to exist. Note that for CREATE you may want to use the MKSTREAM option to create an empty stream automatically.")
		}
		if st.group(string(args[2])) != nil {
			return resp.Err("BUSYGROUP Consumer Group name already exists")
		}
		var id StreamID
		if string(args[3]) == "$" {
			id = st.LastID
		} else {
			p, okk := parseStreamID(args[3])
			if !okk {
				return resp.Err("ERR Invalid stream ID specified as stream command argument")
			}
			id = p
		}
		g := &StreamGroup{Name: string(args[2]), LastID: id}
		if hasER {
			g.EntriesRead = er
		}
		st.Groups = append(st.Groups, g)
		s.propagate(db, s.full("xgroup", args)...)
		return ok
	case "CREATECONSUMER":
		if len(args) != 4 {
			return errArity("xgroup")
		}
		st, e := s.stream(db, args[1], false)
		if e != nil {
			return e
		}
		if st == nil {
			return resp.Err("ERR no such key")
		}
		g := st.group(string(args[2]))
		if g == nil {
			return resp.Err("NOGROUP No such consumer group")
		}
		for _, c := range g.Consumers {
			if c == string(args[3]) {
				return resp.Int(0)
			}
		}
		g.Consumers = append(g.Consumers, string(args[3]))
		s.propagate(db, s.full("xgroup", args)...)
		return resp.Int(1)
	}
	s.propagate(db, s.full("xgroup", args)...)
	return ok
}

func (s *Server) cmdXclaim(db int, args [][]byte) resp.Reply {
	// XCLAIM key group consumer min-idle id [id...] [TIME ms] [RETRYCOUNT n] [FORCE] [JUSTID] [LASTID id]
	if len(args) < 5 {
		return errArity("xclaim")
	}
	st, e := s.stream(db, args[0], false)
	if e != nil {
		return e
	}
	if st == nil {
		return resp.Err("NOGROUP No such key or consumer group")
	}
	g := st.group(string(args[1]))
	if g == nil {
		return resp.Err("NOGROUP No such key or consumer group")
	}
	consumer := string(args[2])
	var ids []StreamID
	i := 4
	for ; i < len(args); i++ {
		id, okk := parseStreamID(args[i])
		if !okk {
			break
		}
		ids = append(ids, id)
	}
	var tm int64 = s.NowMs()
	var rc int64 = -1
	force, justid := false, false
	for ; i < len(args); i++ {
		switch strings.ToUpper(string(args[i])) {
		case "TIME":
			if i+1 >= len(args) {
				return errSyntax
			}
			n, okk := parseInt(args[i+1])
			if !okk {
				return errNotInt
			}
			tm = n
			i++
		case "IDLE":
			i++
		case "RETRYCOUNT":
			if i+1 >= len(args) {
				return errSyntax
			}
			n, okk := parseInt(args[i+1])
			if !okk {
				return errNotInt
			}
			rc = n
			i++
		case "FORCE":
			force = true
		case "JUSTID":
			justid = true
		case "LASTID":
			if i+1 >= len(args) {
				return errSyntax
			}
			id, okk := parseStreamID(args[i+1])
			if !okk {
				return errSyntax
			}
			if g.LastID.Less(id) {
				g.LastID = id
			}
			i++
		default:
			return errSyntax
		}
	}
	_ = justid
	found := false
	for _, c := range g.Consumers {
		if c == consumer {
			found = true
		}
	}
	if !found {
		g.Consumers = append(g.Consumers, consumer)
	}
	out := resp.Array{}
	for _, id := range ids {
		exists := false
		for _, en := range st.Entries {
			if en.ID == id {
				exists = true
			}
		}
		idx := -1
		for k, p := range g.Pel {
			if p.ID == id {
				idx = k
			}
		}
		if idx < 0 {
			if !force || !exists {
				// Redis: with FORCE a non-pending but existing entry is created in the PEL; a deleted entry is skipped
				continue
			}
			g.Pel = append(g.Pel, PelEntry{ID: id})
			idx = len(g.Pel) - 1
		}
		g.Pel[idx].Consumer = consumer
		g.Pel[idx].Time = tm
		if rc >= 0 {
			g.Pel[idx].Count = rc
		} else if !justid {
			g.Pel[idx].Count++
		}
		out = append(out, resp.Bulk(id.String()))
	}
	sort.Slice(g.Pel, func(a, b int) bool { return g.Pel[a].ID.Less(g.Pel[b].ID) })
	s.propagate(db, s.full("xclaim", args)...)
	return out
}

// cmdRestore: RESTORE key ttl payload [REPLACE] [ABSTTL] [IDLETIME s] [FREQ n]
func (s *Server) cmdRestore(db int, args [][]byte) resp.Reply {
	if len(args) < 3 {
		return errArity("restore")
	}
	ttl, okk := parseInt(args[1])
	if !okk || ttl < 0 {
		return resp.Err("ERR Invalid TTL value, must be >= 0")
	}
	replace, absttl := false, false
	for i := 3; i < len(args); i++ {
		switch strings.ToUpper(string(args[i])) {
		case "REPLACE":
			replace = true
		case "ABSTTL":
			absttl = true
		case "IDLETIME", "FREQ":
			if i+1 >= len(args) {
				return errSyntax
			}
			if _, okk := parseInt(args[i+1]); !okk {
				return errNotInt
			}
			i++
		default:
			return errSyntax
		}
	}
	if !replace && s.lookup(db, args[0]) != nil {
		return resp.Err("BUSYKEY Target key name already exists.")
	}
	p := args[2]
	if len(p) < 10 {
		return resp.Err("ERR DUMP payload version or checksum are wrong")
	}
	body, foot := p[:len(p)-10], p[len(p)-10:]
	ver := binary.LittleEndian.Uint16(foot[:2])
	if ver > s.maxRdbVer() {
		return resp.Err("ERR DUMP payload version or checksum are wrong")
	}
	want := crc64.Sum(p[:len(p)-8])
	if binary.LittleEndian.Uint64(foot[2:]) != want {
		return resp.Err("ERR DUMP payload version or checksum are wrong")
	}
	if s.BadFormatKeys[string(args[0])] {
		// a server that cannot load this serialization (sanitize-dump-payload, an encoding it does not know): restoreCommand
		// answers this after the BUSYKEY and footer checks, leaving the keyspace untouched
		return resp.Err("ERR Bad data format")
	}
	v := s.RestoreRegistry[string(body)]
	if v == nil {
		v = &Value{Type: "opaque", Opaque: append([]byte{}, body...)}
	} else {
		v = v.Clone()
	}
	s.RestoreSeen = append(s.RestoreSeen, RestoreCall{DB: db, Key: append([]byte{}, args[0]...), Payload: append([]byte{}, p...), TTL: ttl, Replace: replace, AbsTTL: absttl, Args: quoteArgs(args[3:])})
	var at int64
	if ttl > 0 {
		if absttl {
			at = ttl
		} else {
			at = s.NowMs() + ttl
		}
	}
	if replace {
		delete(s.KS.DBs[db], string(args[0]))
	}
	if at != 0 && at <= s.NowMs() {
		// already expired: Redis does not create the key (it propagates a DEL when replacing)
		return ok
	}
	s.setEntry(db, args[0], v, false)
	s.KS.DBs[db][string(args[0])].ExpireAt = at
	if s.Prop != nil && s.Prop.Flavor7 && at != 0 && !absttl {
		pa := [][]byte{bs("RESTORE"), args[0], itob(at), args[2]}
		pa = append(pa, args[3:]...)
		pa = append(pa, bs("ABSTTL"))
		s.propagate(db, pa...)
	} else {
		s.propagate(db, s.full("restore", args)...)
	}
	return ok
}

func (s *Server) maxRdbVer() uint16 {
	if s.MaxRdbVersion != 0 {
		return s.MaxRdbVersion
	}
	return 13
}
