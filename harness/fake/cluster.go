package fake

import (
	"verifharness/ref/resp"
)

// Cluster is filled in cluster_impl.go; the zero behaviour is "no redirection".
type Cluster struct {
	impl clusterImpl
}

type clusterImpl interface {
	route(s *Server, cs *connState, name string, args [][]byte) resp.Reply
	routeExec(s *Server, cs *connState, q [][][]byte) resp.Reply
	clusterCmd(s *Server, args [][]byte) resp.Reply
}

func (c *Cluster) route(s *Server, cs *connState, name string, args [][]byte) resp.Reply {
	if c.impl == nil {
		return nil
	}
	return c.impl.route(s, cs, name, args)
}
func (c *Cluster) routeExec(s *Server, cs *connState, q [][][]byte) resp.Reply {
	if c.impl == nil {
		return nil
	}
	return c.impl.routeExec(s, cs, q)
}
func (c *Cluster) clusterCmd(s *Server, args [][]byte) resp.Reply {
	if c.impl == nil {
		return resp.Err("ERR unknown subcommand")
	}
	return c.impl.clusterCmd(s, args)
}
