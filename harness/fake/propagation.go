package fake

import (
	"sync"

	"verifharness/ref/resp"
)

// Propagation models what a Redis master appends to its replication stream
// for the writes it executes: a SELECT whenever the database differs from the
// one last selected in the stream, MULTI/EXEC around transactions (two
// flavours, see Flavor7), commands after the master's own rewrites.
type Propagation struct {
	mu      sync.Mutex
	Flavor7 bool // 7.x: relative expiries become absolute; a transaction that propagates a single command is not wrapped
	buf     []byte
	base    int64 // replication offset of buf[0]
	curDB   int
	inTxn   bool
	txn     []propCmd
	Cmds    []PropCmd // decoded view of everything appended
	cond    *sync.Cond
}

type propCmd struct {
	db     int
	args   [][]byte
	origin string
	conn   int
}

// PropCmd is one appended command with the offset at which it ends.
type PropCmd struct {
	DB     int
	Args   [][]byte
	End    int64
	Origin string // CLIENT SETNAME of the connection whose request caused the command ("" for the stream's own SELECTs)
	Conn   int
}

func NewPropagation(startOffset int64, flavor7 bool) *Propagation {
	p := &Propagation{Flavor7: flavor7, base: startOffset, curDB: -1}
	p.cond = sync.NewCond(&p.mu)
	return p
}

func (p *Propagation) beginTxn() { p.mu.Lock(); p.inTxn = true; p.txn = nil; p.mu.Unlock() }

func (p *Propagation) endTxn(s *Server) {
	p.mu.Lock()
	defer p.mu.Unlock()
	p.inTxn = false
	cmds := p.txn
	p.txn = nil
	if len(cmds) == 0 {
		return
	}
	wrap := !(p.Flavor7 && len(cmds) == 1)
	if wrap {
		p.appendLocked(cmds[0].db, [][]byte{[]byte("MULTI")}, cmds[0].origin, cmds[0].conn)
	}
	for _, c := range cmds {
		p.appendLocked(c.db, c.args, c.origin, c.conn)
	}
	if wrap {
		p.appendLocked(cmds[len(cmds)-1].db, [][]byte{[]byte("EXEC")}, cmds[0].origin, cmds[0].conn)
	}
	p.cond.Broadcast()
}

func (p *Propagation) emit(s *Server, db int, args [][]byte) {
	p.mu.Lock()
	defer p.mu.Unlock()
	cp := make([][]byte, len(args))
	for i, a := range args {
		cp[i] = append([]byte{}, a...)
	}
	if p.inTxn {
		p.txn = append(p.txn, propCmd{db, cp, s.curOrigin, s.curConn})
		return
	}
	p.appendLocked(db, cp, s.curOrigin, s.curConn)
	p.cond.Broadcast()
}

func (p *Propagation) appendLocked(db int, args [][]byte, origin string, conn int) {
	if db != p.curDB {
		p.curDB = db
		sel := [][]byte{[]byte("SELECT"), itob(int64(db))}
		p.buf = append(p.buf, resp.Cmd(sel...)...)
		p.Cmds = append(p.Cmds, PropCmd{DB: db, Args: sel, End: p.base + int64(len(p.buf))})
	}
	p.buf = append(p.buf, resp.Cmd(args...)...)
	p.Cmds = append(p.Cmds, PropCmd{DB: db, Args: args, End: p.base + int64(len(p.buf)), Origin: origin, Conn: conn})
}

// End returns the current end offset of the stream.
func (p *Propagation) End() int64 {
	p.mu.Lock()
	defer p.mu.Unlock()
	return p.base + int64(len(p.buf))
}

// Bytes returns a copy of the stream from offset `from` to the current end.
func (p *Propagation) Bytes(from int64) []byte {
	p.mu.Lock()
	defer p.mu.Unlock()
	if from < p.base {
		from = p.base
	}
	if from-p.base >= int64(len(p.buf)) {
		return nil
	}
	return append([]byte{}, p.buf[from-p.base:]...)
}

// ForceSelect makes the next appended command be preceded by a SELECT (what a master does after a resync).
func (p *Propagation) ForceSelect() { p.mu.Lock(); p.curDB = -1; p.mu.Unlock() }

func (p *Propagation) Commands() []PropCmd {
	p.mu.Lock()
	defer p.mu.Unlock()
	return append([]PropCmd(nil), p.Cmds...)
}
