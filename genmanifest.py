#!/usr/bin/env python3
"""Generates MANIFEST.json from checkcfg.PROPS + manifest_meta (kept in sync so the manifest is always valid)."""
import json, os, sys
sys.path.insert(0, os.path.dirname(os.path.abspath(__file__)))
from checkcfg import PROPS
from manifest_meta import META, HOOK_COMMITS, NOTES

allprops = [json.loads(l)["id"] for l in open(os.path.join(os.path.dirname(os.path.abspath(__file__)), "properties.jsonl"))]
checks, na = [], []
for pid in allprops:
    if pid in PROPS and pid in META:
        m = META[pid]
        checks.append({
            "property_id": pid,
            "quick_cmd": "./check %s --tier quick" % pid,
            "thorough_cmd": "./check %s --tier thorough" % pid,
            "evidence_file": "/verif/evidence/%s.json" % pid,
            "replay_cmd_template": "./check --replay {path}",
            "engine": "rapid-harness",
            "level_claimed": {"category": PROPS[pid]["level"], "text": m["text"], "design_ref": "DESIGN.md section 4, %s" % pid},
            "level_note": m["note"],
            "technique": m["technique"],
        })
    else:
        na.append({"property_id": pid, "reason": META.get(pid, {}).get("na", "check not built yet in this session (planned, see DESIGN.md section 4); not claimed")})
man = {
    "version": 1,
    "setup_cmd": "./check --setup",
    "hooks": {"guard": "verif", "enable": "go test -tags verif (the ./check driver compiles harness/props/* against /repo with -tags verif)",
              "baseline_off_cmd": "cd /repo && go test -mod=mod -json -vet=off -count=1 -timeout 25m ./...",
              "source_commits": HOOK_COMMITS, "add_only": True},
    "engines": [{"name": "rapid-harness", "path": "/verif/harness", "serves_properties": [c["property_id"] for c in checks],
                 "kind_free_text": "Go module with pgregory.net/rapid v1.3.0 properties (+ native go fuzz targets in the thorough tier), in-process RESP doubles, reference models; driven by /verif/check"}],
    "checks": checks,
    "not_applicable": na,
    "notes": NOTES,
}
json.dump(man, open(os.path.join(os.path.dirname(os.path.abspath(__file__)), "MANIFEST.json"), "w"), indent=1)
print("checks:", [c["property_id"] for c in checks], "not claimed:", [n["property_id"] for n in na])
