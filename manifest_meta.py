HOOK_COMMITS = []
NOTES = ("Every check is ./check <ID> --tier quick|thorough (python3 stdlib driver): it regenerates harness/go.mod with a replace to /repo, "
         "compiles the property's test binary with -tags verif from /repo's working tree, runs rapid shards with seeds derived from VERIF_SEED, "
         "merges their statistics into evidence/<ID>.json and prints VIOLATION/KNOWN-FINDING lines. exit 2 = undecided (build failure, inconclusive).")

META = {
 "C11": {
  "technique": "property-based testing (rapid) with an independent HASH_SLOT reference as oracle; native go fuzzing in the thorough tier",
  "text": "Generated-input search over brace-heavy byte strings (200k keys quick, 20M + coverage-guided fuzz thorough) comparing all three slot computations of the tool with an independent bitwise CRC16/hash-tag implementation. Exploration, not proof: the function is pure and tiny, so dense sampling of the brace-arrangement space is the right level.",
  "note": "Trusts ref/hashslot (written from the cluster spec, unit-checked against published check values).",
 },
}
