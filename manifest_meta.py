HOOK_COMMITS = ["edb64ad", "e3ba4ea"]
NOTES = ("Every check is ./check <ID> --tier quick|thorough (python3 stdlib driver): it regenerates harness/go.mod with a replace to /repo, "
         "compiles the property's test binary with -tags verif from /repo's working tree, runs rapid shards with seeds derived from VERIF_SEED, "
         "merges their statistics into evidence/<ID>.json and prints VIOLATION/KNOWN-FINDING lines. exit 2 = undecided (build failure, inconclusive).")

META = {
 "C11": {
  "technique": "property-based testing (rapid) with an independent HASH_SLOT reference as oracle; native go fuzzing in the thorough tier",
  "text": "Generated-input search over brace-heavy byte strings (200k keys quick, 20M + coverage-guided fuzz thorough) comparing all three slot computations of the tool with an independent bitwise CRC16/hash-tag implementation, plus the reverse direction: the key names the tool builds for a wanted slot (bidirectional marker/index/latest/commit/rdb keys for all 16384 slots of generated namespaces; the checkpoint key searched for generated target slot ranges) are hashed by the reference. Exploration, not proof: the function is pure and tiny, so dense sampling of the brace-arrangement space is the right level.",
  "note": "Trusts ref/hashslot (written from the cluster spec, unit-checked against published check values).",
 },
 "C12": {
  "technique": "property-based testing (rapid): reference RESP encoder + fragmenting reader, offset == bytes-consumed oracle, byte-exact encoder round trips; native go fuzzing in the thorough tier",
  "text": "Generated command sequences with arbitrary binary/large arguments are decoded through every buffer size and read fragmentation; arguments must come back byte-identical and the decoder offset must equal the number of bytes consumed after every command. Exploration level: the decoder is a small pure state machine over bytes, so dense generated coverage of buffer/fragment boundaries is appropriate.",
  "note": "Trusts the 20-line reference encoder ref/resp. Command names are drawn from ASCII names (the tool lower-cases names; Redis command names are ASCII).",
 },
 "C01": {
  "technique": "property-based testing (rapid): generated streams x configurations x arrival schedules driven through the real RedisOutput against an in-process RESP double; oracle = reference stream model, sequence equality of the target log",
  "text": "Each generated case runs the real output pipeline (parser, batcher, sender, checkpoint writer) over TCP against a recording double and compares the complete ordered target log with an independent interpretation of the stream. Exploration level: the space of streams x schedules is unbounded; arrival timing is generated but the Go scheduler is not owned.",
  "note": "Trusts the double's request log and the reference stream model (removal rules transcribed from the documentation/filter list). A sentinel not executed within 30 s is inconclusive (exit 2), never a violation.",
 },
 "C02": {
  "technique": "property-based testing (rapid) + exhaustive fault enumeration per case: every target-request crash point and every graceful-stop instant, then restart; oracle = reference stream model over the concatenated run logs (no gap, right DB, exactly-once in transactional mode)",
  "text": "The random part picks stream, configuration and schedule; the fault dimension (which request was the last one the target executed) is enumerated completely for that case, in both 'target crash' and 'tool stop' flavours, and every resulting two- or three-life history is judged against the reference sequence. Fault enumeration is the right level: crash points are finite per case and each is cheap.",
  "note": "Trusts the double's crash model (prefix of requests executed, open MULTI discarded) and the restart procedure transcribed from syncer.newOutput / RedisInput (UpdateCheckpoint, StartPoint, serve from the returned offset; 'none' = serve from the stream start, accepted only outside transactional mode).",
 },
 "C09": {
  "technique": "property-based testing (rapid) over transaction-heavy streams + exhaustive crash/stop-point enumeration per case; oracle = execution-group invariant on the double's log (one group per source transaction, complete, with its covering checkpoint)",
  "text": "Same engine as C02 with a generator biased to transactions around the batch size; the judged invariant is atomic visibility: the double tags everything an EXEC runs with one group id, so 'part of a source transaction became visible' is directly observable at every enumerated crash/stop point and after every restart.",
  "note": "Only transactional mode against a standalone double is generated (the property's scope). Alignment of executed commands with the reference sequence is taken from the resume offset; when alignment is lost C02 reports it and C09 stops judging that run.",
 },
 "C07": {
  "technique": "property-based testing (rapid) over streams with idle gaps and restart chains; oracle = monotonicity/boundary invariant over the history of checkpoint offset writes observed at the double",
  "text": "Generated idle periods (relative to the generated ticker periods, including keep-alive-long ones) and restart chains exercise ticker-, keep-alive- and shutdown-driven checkpoint flushes; the complete ordered history of stored offsets is checked against the reference command boundaries. Exploration: timing is generated, the scheduler is not owned.",
  "note": "The initial 'none yet' marker (-1 written by start-up on an empty target) is tolerated exactly as the property states.",
 },
 "C03": {
  "technique": "property-based testing (rapid): generated datasets written by an independent RDB writer in every encoding, replayed by the real RedisOutput into an interpreting double; round-trip oracle (dataset -> RDB -> tool -> target keyspace == dataset) plus byte-exact RESTORE payload check",
  "text": "The generator owns the encoding of every value, so each of the ~25 on-disk encodings and every integer width is produced deliberately and reaches the tool's loader, splitter, RESTORE builder and command expander; the double executes what the tool sends with Redis semantics and the final keyspace is compared with the dataset. Exploration over an unbounded input space.",
  "note": "Trusts ref/rdbgen and the double's command semantics. Not compared (documented as not replayable): consumers without pending entries, consumer seen/active time, IDMP state, entries_read of v1 streams (estimated by the tool). Listpacks with an 'unknown' element count are not generated (the property quantifies unknown length over ziplists).",
 },
 "C20": {
  "technique": "property-based testing (rapid): C03's generator plus a generated pre-populated target and policy; oracle = per-policy keyspace invariants on the interpreting double (snapshot wins / existing key byte-identical / error before modification)",
  "text": "Every combination of policy x replay path x same-or-different existing type arises from generation and is labelled from what was measured; the double holds the pre-existing values so 'unchanged' is a byte comparison. Exploration level.",
  "note": "Plain (non-bidirectional) replay path. Same trusted base as C03.",
 },
 "C04": {
  "technique": "property-based testing (rapid) for the snapshot/configuration + exhaustive enumeration of four fault dimensions per case (truncation lengths, single-byte alterations in sandboxed child processes, target error index, cancellation instant); coverage-guided native fuzzing of the parser in the thorough tier",
  "text": "Each generated snapshot is replayed hundreds of times with exactly one fault each; 'incomplete' is decided by comparing the double's final keyspace with the dataset, and the forbidden outcome (success reported / snapshot offset stored / next start resumes behind the snapshot) is read off the double's request log and a fresh StartPoint. Fault enumeration: the fault space per case is finite and cheap.",
  "note": "Plain replay path; trusted base as C03. Cancellation instants are 'after the k-th target request' (the harness does not own the Go scheduler inside the tool). A footer alteration that would fabricate the all-zero 'checksum disabled' footer is skipped.",
 },
 "C10": {
  "technique": "property-based testing (rapid), differential against a reference filter model: pure layer on the filter API and end-to-end layer through the real output (incremental and snapshot paths); native go fuzzing of the slot-range decision in the thorough tier",
  "text": "Configurations with overlapping/nested/reversed ranges and mixed-acceptance multi-key commands are generated deliberately; the reference model restates the property (union of ranges, byte-prefix rules, projection of DEL/UNLINK/MSET) independently of the tool's trie/range-list/keyspec code. Exploration level over configurations x commands.",
  "note": "Commands are drawn from the reference key-position table only (the property quantifies over the supported key-addressed command set); empty prefixes are not generated (a YAML list entry \"\" is not a meaningful configuration).",
 },
 "C05": {
  "technique": "stateful property-based testing (rapid, generated operation sequences interpreted against both cache backends); oracle = bytes as a pure function of (lineage, offset) checked on every byte any reader returns, plus API invariants after every step",
  "text": "Operation sequences (writers, readers, rotation, collection, resets, reopen) are generated and shrunk as plain data; because every byte is a function of its offset no stored model is needed and readers can be checked at any time. Exploration level; the sequential mode owns the order of operations, not the goroutine interleaving inside the cache.",
  "note": "Sequential driver (one operation at a time; the cache's own writer/reader goroutines run concurrently underneath). A live reader that does not catch up within 10 s is inconclusive (exit 2), not a violation.",
 },
 "C08": {
  "technique": "property-based testing (rapid) for the write sequence + exhaustive enumeration of frozen and torn directory images per sequence; oracle = image truth read back from the files vs. what a freshly opened cache reports and serves",
  "text": "Crash instants of a file-based store are finite per write sequence (every truncation length of the newest file, each half-done rotation / collection / rename), so they are enumerated; each image is opened by the real start-up path (initDataSet, TruncateGap, ParseRdbFile) and every byte served is compared with the byte function. Fault enumeration level.",
  "note": "Assumes ordered writes (no torn older files). With verifyCrc a reader that refuses an un-finalised newest segment is accepted (refusing is not serving wrong bytes).",
 },
 "C15": {
  "technique": "stateful property-based testing (rapid, generated action sequences with a virtual clock and lost calls) against a reference lease model; the tool's own Lua is interpreted by a subset interpreter inside the double; plus a generated-configuration property for the renew/timeout ratio",
  "text": "Interleavings of campaign/renew/resign by several real Election objects, arbitrary passage of (virtual) time and lost calls are generated as plain action sequences; mutual exclusion and the exact lease state are checked after every step against a 10-line reference model. Exploration level; the harness owns the order of calls and the clock.",
  "note": "Decided at the Election API + configuration level (the cmd loop that stops syncing after a failed renewal is not driven); etcd-based election is outside the property's statement.",
 },
 "C17": {
  "technique": "property-based testing (rapid) over tool-written bookkeeping states + exhaustive enumeration of every request prefix of each maintenance operation; metamorphic oracle: a clean start after the crash must find a position >= and in the same database as a clean start before the operation",
  "text": "States are produced with the tool's own field names and normalised by the tool's own start-up; each maintenance operation is cut after every target request and the recovery path (the real UpdateCheckpoint/GetCheckpoint) is run on a clone of the resulting keyspace. Fault enumeration level: the operations issue a few dozen requests at most.",
  "note": "The bidirectional mode-switch operation is covered by C14's machinery, not here. The tool iterates databases in Go map order, so the replay path repeats a case several times.",
 },
 "C06": {
  "technique": "property-based testing (rapid) over the product source state x stored position x cache pre-state x backend, real RedisInput against a PSYNC double; oracle = history-tree byte function + position/grant invariants on the readers handed to the output",
  "text": "Every combination of the property's quantifier is drawn with concrete offsets around the interesting boundaries; the bytes of every history are a pure function of (history, offset) so a continuation from a wrong history or offset is detected on the first delivered byte. Exploration level.",
  "note": "Up to 2 inconclusive cases per run are tolerated (a case in which the tool backs off for seconds before it hands a reader to the output). One open known finding (previous-id position beyond the switch offset validated against a current-id cache).",
 },
 "C16": {
  "technique": "property-based testing (rapid) over leader/follower cache pre-states (history-tree byte function) with the real gRPC leader/follower pair + enumeration of the interruption index of the transfer; oracle = follower bytes == leader history bytes, contiguity, single id",
  "text": "Pre-states cover every relation between the two caches named by the property; each transfer is cut after every message in turn and the follower restarted, and whatever the follower then claims to hold under the leader's id is read back completely and compared with the leader's history. Exploration + enumeration of the interruption point.",
  "note": "The harness decides that a session has quiesced by watching the follower's right edge / message counter (bounded waits); it does not own goroutine scheduling inside the pair.",
 },
 "C13": {
  "technique": "property-based testing (rapid) over interleaved client histories at two sites joined by two live bisync links, against real-executing doubles with an origin-tagged propagation stream; oracle = exactly-once application of client-originated units and zero application of tool-originated ones (differential against ground-truth origin)",
  "text": "The loop is closed through two stores and their replication streams, with the rewrites a master applies when propagating. Who wrote a stream entry is recorded by the double, so the check never relies on the marker convention it is testing. Exploration level: interleavings come from the Go scheduler and generated pauses.",
  "note": "Restarts are outside this property (C14). Type conflicts between the sites are excluded by construction.",
 },
 "C14": {
  "technique": "stateful property-based testing (rapid) over replay histories with injected crashes and stops (request-count fault points, start-up included) against request-logging doubles; oracle = invariants over the target's execution history (committed-prefix resume point, monotone restarts, atomic unit + record, frontier never beyond a gap)",
  "text": "Runs are generated as a list (restart kind, fault, traffic produced so far), so that restart-after-restart without traffic, crashes during start-up recovery and between frontier save and journal deletion are ordinary members of the domain. Cluster targets with unequal node latencies give out-of-order completion across lanes. Exploration level: schedules inside the tool are not owned, fault points are request counts.",
  "note": "The frontier is flushed on a 100 ms wall-clock interval that cannot be changed from outside; cases with source pauses > 100 ms and linger times exercise it (class frontier-saved).",
 },
 "C18": {
  "technique": "property-based testing (rapid) over source streams with adversarial hash-tag arrangements against a slot-checking cluster double; oracle = reference slot function and reference key table over every transaction received and over the source units (refuse / replay-exactly verdict)",
  "text": "The slot function and the key positions the verdicts use are the harness' own (bitwise CRC16, table transcribed from the command reference), so a disagreement between the tool's routing and Redis Cluster shows as a transaction spanning slots, a refused single-slot unit or an unrefused multi-slot one. Requests are judged as received (queued or executed), so a partially sent unit is seen even when the node rejects it.",
  "note": "Exploration level: inputs are sampled; the snapshot (RDB) path builds one unit per key and is outside this check.",
 },
 "C19": {
  "technique": "property-based testing (rapid) over cluster layouts, streams and migration schedules against a specification-enforcing cluster double; oracle = per-key rewind-only order and no-silent-loss over the cluster-wide execution history",
  "text": "Migration events are tied to the cluster-wide request counter so that they land between and inside batches; per-node latencies let several batches be in flight when a redirection is answered. The double refuses to execute anywhere but at the entitled node, which turns 'lost' and 'reordered' into observable history facts. Exploration level (the Go scheduler inside the cluster client is not owned).",
  "note": "Streams are single-slot commands (the property's domain); quiescence after the last command is detected by a bounded wait.",
 },
}
