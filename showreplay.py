#!/usr/bin/env python3
"""pretty-print a replay file (case + multi-run history)"""
import json,sys
v=json.load(open(sys.argv[1]))
print(v['signature'],'::',v['message'])
c=v['case']
print('cfg',json.dumps(c.get('cfg')))
print('faults',c.get('faults'),'start',c.get('start'),'sched',c.get('sched'))
off=c.get('start',0)
for i,x in enumerate(c.get('cmds',[])):
    print('  src',i,x['n'],[a[:24] for a in x.get('a',[])])
h=v.get('history') or {}
for k,run in enumerate(h.get('runs',[])):
    print('--- run',k,{a:run[a] for a in run if a!='requests'})
    for r in run['requests']:
        print('   ',r['seq'],'c%d'%r['conn'],r['cmd'],[a[:28] for a in r['args'][:5]],'Q' if r.get('queued') else '',r['reply'][:50])
for r in h.get('target_requests',[]):
    print('   ',r['seq'],'c%d'%r['conn'],r['cmd'],[a[:28] for a in r['args'][:5]],'Q' if r.get('queued') else '',r['reply'][:50])
