"""Per-property configuration of ./check: which test functions decide the
property, case counts and shards per tier, evidence texts."""

PROPS = {}


def prop(id, title, level, rule, units, assumptions=(), max_inconclusive=0):
    PROPS[id] = {"id": id, "title": title, "level": level, "rule": rule, "units": units,
                 "assumptions": list(assumptions), "max_inconclusive": max_inconclusive}


BASE_ASSUME = ["Go toolchain and runtime", "pgregory.net/rapid v1.3.0 generators/shrinker"]

prop("C11", "Key-to-slot computation agrees with Redis Cluster for every key", "exploration",
     "keys are byte strings built from brace-heavy tokens ('{','}','{}','{{','}{', letters, NUL, 0xFF, invalid UTF-8, CRLF) "
     "plus an occasional 0-300 byte random tail; each key is one case; non-trivial = the key contains at least two brace characters; "
     "distinct = distinct key bytes (sha1 of the case JSON). Oracle: ref/hashslot (bitwise CRC16/XMODEM over first-'{'..first-following-'}' tag if non-empty) "
     "compared with redis.KeyToSlot, cluster.GetSlot (string and []byte), RangeList.IsSlotInList for singleton ranges [s,s] (must accept) and [s+1,s+1] (must reject), and the slot of the marker key a bidirectional unit on that key would use (BisyncMarkerKey(BisyncSlotTag(KeyToSlot(key)))). "
     "Second unit (co-located bookkeeping keys): one case in four = a checkpoint name x unit sequence number for which ALL 16384 slots are enumerated: the marker / index / latest / commit / rdb record keys built from BisyncSlotTag(slot) must have HASH_SLOT == slot; "
     "otherwise 1-4 slot ranges (single slots, narrow, wide) handed to the checkpoint-key search of transactional cluster replay (choseKeyInSlots through a hook): a key that is returned must lie in the union of the ranges and carry the prefix.",
     [{"pkg": "c11", "test": "TestC11",
       "quick": {"checks": 200000, "shards": 4, "timeout": 300},
       "thorough": {"checks": 20000000, "shards": 16, "timeout": 1500},
       "fuzz": [{"target": "FuzzC11", "time": "90s", "timeout": 400}]},
      {"pkg": "c11", "test": "TestC11Coloc",
       "quick": {"checks": 400, "shards": 4, "timeout": 300},
       "thorough": {"checks": 16000, "shards": 16, "timeout": 1500}}],
     BASE_ASSUME + ["ref/hashslot written from the cluster specification; unit-checked against CRC16('123456789')=0x31C3 and CLUSTER KEYSLOT examples"])

prop("C12", "Stream decoding is lossless and its offsets equal the bytes consumed", "exploration",
     "a case = 1-8 multi-bulk commands (1-300 arguments; empty, CRLF/RESP-looking, NUL/0xFF, random, and repeated-chunk arguments up to ~80 KB quick / ~4.8 MB thorough; "
     "optional bare '\\n' before a command) encoded by the reference encoder, a bufio size from {16..65536} and a cyclic schedule of read-fragment sizes; "
     "non-trivial = some argument is larger than the bufio buffer and larger than every read fragment (it spans several underlying reads); distinct = sha1 of the case. "
     "Oracle: generated argument bytes; running sum of reference-encoded lengths == decoder offset after each command; EOF afterwards; client.Encode and proto.Writer.WriteArgs output byte-identical to the reference encoding; integers written as decimal text.",
     [{"pkg": "c12", "test": "TestC12",
       "quick": {"checks": 20000, "shards": 4, "timeout": 300},
       "thorough": {"checks": 400000, "shards": 16, "timeout": 1800},
       "fuzz": [{"target": "FuzzC12", "time": "90s", "timeout": 400}]},
      {"pkg": "c12", "test": "TestC12Ints",
       "quick": {"checks": 20000, "shards": 1, "timeout": 300},
       "thorough": {"checks": 500000, "shards": 2, "timeout": 900}}],
     BASE_ASSUME + ["ref/resp reference RESP encoder"])

STREAM_ASSUME = BASE_ASSUME + ["fake/ RESP double (log-only mode: business commands are recorded with connection, database and execution group, never interpreted)",
                               "gen/Interpret reference stream model (documented removals: PING, SELECT, MULTI/EXEC, filter.NoRouteCmds list, configured command/db blacklist, sentinel hello, reserved-key commands)",
                               "ref/resp encoder"]

prop("C01", "Incremental replay applies every source write once, in order, in the right DB", "exploration",
     "a case = output configuration (batch count/bytes, tickers, txn or ticker checkpointing, blocking/pipelined, resume, db map/targetDb, db and command blacklists) x "
     "replication stream (SELECT first; binary-argument data commands of ~28 templates, SELECTs, MULTI..EXEC groups of 0-12 commands incl. SELECT inside, PING, REPLCONF GETACK, sentinel hello, admin and blacklisted commands, writes to bookkeeping keys) x "
     "delivery schedule (byte chunking at arbitrary positions, idle gaps of 0.5-5 ticker periods, 4% with a gap longer than the keep-alive ticker). One uninterrupted RedisOutput.Send against the double; "
     "non-trivial (measured on the target log) = >=2 SELECTs executed at the target AND a source transaction with data AND a non-UTF-8 argument delivered AND >=4 expected commands; distinct = sha1 of the case. "
     "Oracle: sequence equality of (db, command, argument bytes) between the target's executed data commands up to the end sentinel and the reference model.",
     [{"pkg": "c01", "test": "TestC01",
       "quick": {"checks": 480, "shards": 8, "timeout": 400},
       "thorough": {"checks": 24000, "shards": 16, "timeout": 3000}}],
     STREAM_ASSUME, max_inconclusive=0)

CRASH_ASSUME = STREAM_ASSUME + ["crash model: the target executes a prefix of the requests it received (an open MULTI is discarded), the tool process dies with it; restart = fresh RedisOutput + start-up bookkeeping + StartPoint + channel bytes from the returned offset",
                                "requests the stopped process had already written to its sockets are drained before the next run starts"]

prop("C02", "A crash at any instant loses no source write; transactional mode repeats none", "fault_enumeration",
     "a case = resume-enabled output configuration x stream (<=22 commands + sentinel, biased to transactions and SELECTs) x schedule; for each case an uncrashed run gives R = requests the target processed during Send, then EVERY fault point n in 1..R is executed twice: "
     "'crash' (target stops after its n-th request, tool dies) and 'stop' (tool stopped gracefully at that instant), followed by a process restart that runs to the end sentinel (thorough: additionally a second crash in the resumed run for every third n). "
     "evaluations = tool lives executed; fault_points = enumerated faults; non-trivial = a distinct case (sha1) in which at least one fault hit inside a target MULTI, between a batch and its checkpoint write, or right after a SELECT, and the stream has >=3 expected commands. "
     "Oracle over the concatenated per-run target logs: resume offset is a command boundary inside the stream; run k's executed data commands equal the reference sequence from the resume point (command, args, DB); no gap (resume <= reached+1); "
     "transactional mode: resume == reached+1 exactly (nothing twice, no fallback to 'none'); the last run reaches the end. "
     "Second unit (keep-alive): cases in which the source goes idle for longer than the keep-alive ticker (>= 1 s, so these are few) at a chosen boundary - after a SELECT, while commands are still queued (batch ticker 5 s), right after MULTI, inside a transaction, after EXEC; the 8 fault points behind the idle gap (the keep-alive driven flush) are enumerated in both flavours.",
     [{"pkg": "c02", "test": "TestC02",
       "quick": {"checks": 64, "shards": 16, "timeout": 600},
       "thorough": {"checks": 1600, "shards": 16, "timeout": 5400}},
      {"pkg": "c02", "test": "TestC02Keepalive",
       "quick": {"checks": 32, "shards": 16, "timeout": 900, "shrinktime": "60s"},
       "thorough": {"checks": 640, "shards": 16, "timeout": 7200}}],
     CRASH_ASSUME)

prop("C09", "A source transaction reaches the target as one atomic transaction", "fault_enumeration",
     "a case = transactional, resume-enabled configuration (batch size mostly 1-4) x stream biased to MULTI..EXEC groups of length 0,1,2,3,4,5,8,12 (adjacent groups, groups next to SELECT, SELECT inside a group) x schedule; "
     "the fault dimension is enumerated as in C02: every target-request crash point and every graceful-stop instant of the uncrashed run, each followed by a restart to the end. "
     "non-trivial = distinct case with a source transaction that is longer than the batch size or with a fault that hit while a target MULTI was open. "
     "Oracle per run and per source transaction T (commands aligned with the reference sequence): all executed commands of T lie in ONE target execution group, that group contains ALL of T, and the same group writes a resume position >= the end offset of T's EXEC. Second unit (keep-alive): idle gaps longer than the keep-alive ticker placed around and inside source transactions, fault points behind the gap enumerated.",
     [{"pkg": "c09", "test": "TestC09",
       "quick": {"checks": 48, "shards": 16, "timeout": 600},
       "thorough": {"checks": 1200, "shards": 16, "timeout": 5400}},
      {"pkg": "c09", "test": "TestC09Keepalive",
       "quick": {"checks": 32, "shards": 16, "timeout": 900, "shrinktime": "60s"},
       "thorough": {"checks": 640, "shards": 16, "timeout": 7200}}],
     CRASH_ASSUME + ["the double executes everything queued by one EXEC under one execution-group id (atomic, like Redis)"])

prop("C07", "The stored resume position only moves forward along command boundaries", "exploration",
     "a case = resume-enabled configuration (both checkpoint modes, blocking/pipelined) x stream x schedule with idle gaps (before the first item, between items, 6% longer than the keep-alive ticker) x a chain of 1-3 faults (target crash / graceful stop at a drawn request index) "
     "x optional pure-idle run after the last restart x optional idle tail after the end. One case in three is shaped like an idle master's stream: keep-alive PINGs inserted in front of SELECT / MULTI and after plain commands, each with an idle gap of 0.5-2 batch / checkpoint ticker periods before and / or after it, delivered command by command (C01, C02 and C09 use the same shape for one case in five). non-trivial = distinct case in which a checkpoint write was executed before the first data command of a run that started from a stored position (ticker/keep-alive/shutdown flush ahead of the first item). "
     "Oracle over the ordered list of values written to <runid>_offset in all runs (from the target log): every value is the run's start offset or a command-end offset of the reference stream; the list never decreases; no value < 0 while a value >= 0 is stored; "
     "a restart never reads 'none' (or another value than the last one stored) once a position >= 0 has been stored.",
     [{"pkg": "c07", "test": "TestC07",
       "quick": {"checks": 480, "shards": 16, "timeout": 600},
       "thorough": {"checks": 16000, "shards": 16, "timeout": 5400}}],
     CRASH_ASSUME)

RDB_ASSUME = BASE_ASSUME + ["ref/rdbgen: independent RDB writer (lengths, int/LZF strings, ziplist, listpack, intset, zipmap, quicklist v1/v2, stream listpacks v1-v4) written from the Redis sources' format descriptions",
                            "fake/ interpreting double: Redis semantics for SET/RPUSH/SADD/ZADD/HSET/XADD/XSETID/XGROUP/XCLAIM/PEXPIRE/DEL/EXISTS/RESTORE (footer version and CRC64 verified with ref/crc64; payload mapped to a value through the generator's registry)",
                            "stream v4 (IDMP) trailer layout is taken from the tool's own reader comments (no independent source available offline)"]

prop("C03", "A full sync reproduces the source snapshot's dataset on the target", "exploration",
     "a case = dataset (1-12 keys over DBs 0,1,2,5,15; every type; expiries none / >=1h past / >=1h future; IDLE/FREQ) x per-value RDB encoding (raw/int/LZF strings; linked list, ziplist, quicklist v1, quicklist v2 plain+packed; table/intset 16-32-64/listpack sets; "
     "skiplist v1 ascii/v2 binary, ziplist, listpack sorted sets incl. +-inf; zipmap (free bytes, len byte 254, 5-byte lengths), ziplist, listpack, table hashes; stream listpacks v1-v4 with SAMEFIELDS/own fields, deleted entries, groups, PELs, empty stream; integer boundary values of every width and sign; "
     "ziplists with zllen 65535; LZF-compressed blobs) x container (versions 6-13, AUX, RESIZEDB, SLOT_INFO, EXPIRETIME seconds/ms, checksum or 0) x replay configuration (restore on/off, MaxProtoBulkLen 40..512MiB, parallel 1-8, pipe size 1-1024, injective db map, split threshold 48B..16MiB via hook, target version 4-8, reader fragmentation; one configuration in five with replay.replaceHashTag, the reference then expects every key under its name without the first '{' and the first '}' - switched off for a case in which two keys would collapse). "
     "One configuration in four uses the bidirectional snapshot path (every key in its own MULTI / marker / value / EXEC; its own handling of the key-exists policy and of split values). "
     "On the RESTORE path the target optionally refuses the payload of every 1st/2nd/3rd snapshot key with ERR Bad data format (after the BUSYKEY and footer checks, as restoreCommand does); the tool then falls back to native commands, or stops, in which case nothing is judged. "
     "non-trivial (measured) = distinct case in which both replay paths were taken (>=1 RESTORE accepted and >=1 native expansion command executed) and a compact encoding held a negative or >=24-bit integer. "
     "Oracle: (1) every RESTORE payload == type byte + the writer's serialization of that key + footer(version<=13, CRC64 by ref/crc64); (2) final keyspace of the double == dataset under the db map (type, list order, members, bit-exact scores, fields, stream entries/ids/last-id/entries-added/max-deleted/groups/PELs), no extra keys; (3) |target expiry - source expiry| <= 60 s, past expiries gone or expiring within 60 s.",
     [{"pkg": "c03", "test": "TestC03",
       "quick": {"checks": 8000, "shards": 8, "timeout": 600},
       "thorough": {"checks": 400000, "shards": 16, "timeout": 5400}}],
     RDB_ASSUME)

prop("C20", "Pre-existing target keys are handled as the configured policy says, on any path", "exploration",
     "a case = C03's snapshot generator (<=8 keys, all encodings) x replay configuration x policy {replace, ignore, error} x pre-populated target: each snapshot key exists beforehand with probability 1/2, with the same or another type (string/list/set/zset/hash/stream), with or without a TTL, plus optionally a key outside the snapshot. One case in eight is scripted: a table-encoded hash of 8-20 fields under a key with one or two brace pairs, renamed on the way (replaceHashTag), split into parts by a 48-64 byte threshold, over a pre-existing key. "
     "The replay path of each pre-existing key (RESTORE / native expansion / split into chunks) follows from restore on/off, MaxProtoBulkLen and the split threshold and is measured. non-trivial = distinct case with a pre-existing key of a DIFFERENT type on the expansion path, or a pre-existing key under a split value. "
     "Oracle: replace -> final value/expiry of every snapshot key == snapshot (C03 comparison); ignore -> every pre-existing key byte-identical (value, type, expiry), other keys as in C03; error -> Send returns an error iff a snapshot key pre-existed, and every pre-existing key is unmodified; keys outside the snapshot never change.",
     [{"pkg": "c20", "test": "TestC20",
       "quick": {"checks": 6000, "shards": 8, "timeout": 600},
       "thorough": {"checks": 300000, "shards": 16, "timeout": 5400}}],
     RDB_ASSUME)

prop("C04", "An incomplete snapshot replay is never recorded as a completed full sync", "fault_enumeration",
     "a case = small checksummed snapshot from C03's generator (<=6 keys, ~150-600 bytes, all encodings) x replay configuration (parallel 1/2/4, pipe size 1..1024, both paths). Per case four fault dimensions are ENUMERATED: "
     "(1) truncation at every length 0..len-1 with the reader returning EOF, and at every 9th length with the reader blocking until the tool is stopped; (2) every single-byte alteration (5 values per position: ^0x01, ^0x80, 0x00, 0xFF, +1) of every position incl. the footer, "
     "parsed (with the lazy per-value expansion) in child processes under an address-space limit so that a fatal allocation is observed, not suffered; (3) an error reply to the k-th data request for every k; (4) cancellation after exactly k target requests for every k in 0..R, "
     "half of them against a slow target (300 us per request) so that the parser reaches the end while workers still hold queued entries. evaluations = replays/parses executed; non-trivial = distinct snapshot with >= 2 keys for which some fault left the target with a strict subset after >= 1 entry had been applied. "
     "Oracle: whenever the final keyspace lacks part of the snapshot (C03 comparison): Send returned an error AND no request storing <runid>_offset = snapshot offset was executed AND a fresh StartPoint does not return the snapshot offset; altered input: the parser reports an error before 'done'; "
     "the call returns (a watchdog expiry is re-checked alone in a fresh process with a 120 s limit before it counts), the process survives (death by an allocation >= 32 GiB is a verdict, any other death is inconclusive). "
     "Thorough adds coverage-guided fuzzing of the parser with the CRC-consistency oracle (accepted => footer == independent CRC64 of the consumed bytes).",
     [{"pkg": "c04", "test": "TestC04",
       "quick": {"checks": 32, "shards": 16, "timeout": 900},
       "thorough": {"checks": 640, "shards": 16, "timeout": 5400},
       "fuzz": [{"target": "FuzzC04", "time": "180s", "timeout": 600}]},
      {"pkg": "c04", "test": "TestC04Alter",
       "quick": {"checks": 64, "shards": 8, "timeout": 900},
       "thorough": {"checks": 3200, "shards": 16, "timeout": 5400}}],
     RDB_ASSUME + ["child processes run under `ulimit -v 40 GiB`"])

prop("C10", "Filters pass exactly the configured set of commands, keys, slots and databases", "exploration",
     "filter configuration = 0-6 slot ranges in white and/or black list in any order (single slots, wide ranges that contain others, overlapping, adjacent, reversed l>r ranges that must be ignored), prefix white/black lists (ASCII and multi-byte UTF-8 prefixes, prefixes of the reserved names), db blacklist, command blacklist in any letter case. "
     "Pure layer: one case = configuration x one command drawn from the reference key-position table (~95 commands: single-key, first/last/step, numkeys with and without destination) with 1-4 binary / brace-heavy / reserved-looking keys x db; compared: FilterCmd, FilterDb, FilterKey, FilterSlot, FilterCmdKey (decision and projected arguments). "
     "End-to-end layer: one case = configuration x stream of 1-12 such commands over several dbs through the real RedisOutput (incremental path) x snapshot of 1-10 string keys (snapshot path, RESTORE and expansion). "
     "One configuration in four uses the bidirectional snapshot path (every key in its own MULTI / marker / value / EXEC; its own handling of the key-exists policy and of split values). "
     "On the RESTORE path the target optionally refuses the payload of every 1st/2nd/3rd snapshot key with ERR Bad data format (after the BUSYKEY and footer checks, as restoreCommand does); the tool then falls back to native commands, or stops, in which case nothing is judged. "
     "One configuration in four uses the bidirectional snapshot path (every key in its own MULTI / marker / value / EXEC; its own handling of the key-exists policy and of split values). "
     "non-trivial = distinct case with a multi-key command of mixed acceptance, or any key decision under overlapping/nested ranges (pure); every end-to-end case. "
     "Oracle: ref/filtermodel (union of ranges over ref/hashslot, byte-prefix rules, reserved namespaces redis-gunyu-checkpoint*, /redis-gunyu*, redis-gunyu-bisync*, DEL/UNLINK/MSET projection keeping order and values, any other command with a rejected key withheld).",
     [{"pkg": "c10", "test": "TestC10Pure",
       "quick": {"checks": 60000, "shards": 4, "timeout": 600},
       "thorough": {"checks": 4000000, "shards": 16, "timeout": 3600},
       "fuzz": [{"target": "FuzzC10", "time": "90s", "timeout": 400}]},
      {"pkg": "c10", "test": "TestC10E2E",
       "quick": {"checks": 480, "shards": 8, "timeout": 600},
       "thorough": {"checks": 16000, "shards": 16, "timeout": 3600}}],
     STREAM_ASSUME + ["ref/keyspec (key positions transcribed from the Redis command reference)", "ref/filtermodel", "ref/hashslot", "ref/rdbgen for the snapshot layer"])

CACHE_ASSUME = BASE_ASSUME + ["cache/ driver: bytes are a pure function of (lineage, offset) (ByteAt/SnapBytes, snapshots end with their CRC64), fed through io.Pipe like a source connection; readers are drained by background pumps",
                              "writers/readers are used the way RedisInput.syncMeta/syncData and the replica code use them (DelRunId + SetRunId + writer at the channel's right edge)"]

prop("C05", "The local cache returns exactly the bytes written, at the offsets written", "exploration",
     "a case = backend (disk StoreChannel in a scratch directory | MemoryChannel) x segment size 32..4096 x max size (unlimited | 3 | 8 segments) x verifyCrc x a sequence of 3-30 operations: snapshot write + log writer, log-only start, append of 1..3 segments worth of bytes (incl. exactly segment size +-1), open reader anywhere in [left-6, right+5] or near the tail, close reader, collector pass (hook), writer replacement, replication-id switch (rename), delete, new snapshot, clean close+reopen (disk). "
     "After EVERY step every byte every reader has returned so far is compared with the byte function, live readers must have delivered exactly the bytes written so far (bounded wait 10 s => inconclusive), invalidated readers may end but must not deliver other bytes; IsValidOffset => NewReader succeeds; a log reader is never handed out outside the cached range; a snapshot reader only while a complete snapshot is cached and with its geometry; GetOffsetRange never claims bytes that were collected; delete invalidates. "
     "Readers may be slow consumers (they take 64 bytes and go on only at a later 'begin' step; the cache's own reader then sits blocked on its pipe, still holding its references); one snapshot in twelve is larger than the 2 MiB a reader buffers ahead, followed by a scripted history (appends, slow snapshot reader, appends, collector pass); "
     "cache resets (new run, id switch, delete) are issued with the readers closed first (the input's own reader) or, one time in three, with readers still open (readers that serve followers) - the reset then has 20 s to return (a watchdog expiry there is reported as cache-reset-never-returns, both defects of this kind were deterministic lock cycles). "
     "Readers of the index that is being reset must then END OR FAIL: the reset closes them synchronously, so one that is still open and silent 10 s later, while the others of the same reset ended at once, was forgotten (if none ended the case is inconclusive, not a verdict); readers orphaned by an earlier replication-id switch (SetRunId builds a new index and never closes the old one) are not judged. "
     "A snapshot transfer may break in the middle (the writer is fed half of the announced size), followed by the next round's start-point query (and optionally a re-selection of the same id): the incomplete snapshot must not be offered (GetRdb, IsValidOffset, NewReader). "
     "After every step a probe asks for both ends, their neighbours and the middle of the reported range: where IsValidOffset says yes a FRESH reader must open and deliver the right bytes. "
     "non-trivial (measured) = distinct case in which a live reader consumed more than one segment (crossed a rotation) AND a collector pass removed a segment."
     " Second unit (concurrent): backend x segment size 64..4096 x size limit (none | 6 | 20 segments; on disk a collector pass runs every millisecond meanwhile) x a source that feeds the log writer continuously in generated chunk sizes (1..5000 bytes, never waiting for the cache) x 1-6 writer replacements (the writer is closed WHILE it is appending and a new one is attached at the right end the cache then reports, as the input does on every reconnection) and 0-4 readers opened at valid offsets, both triggered when the cache has grown by generated amounts. While running every reader's bytes are compared with the byte function; after the stop, on the quiescent cache (nothing running, so no timing enters the verdict), fresh readers at the left end, the right end, the middle and around up to six segment boundaries must deliver exactly the bytes up to the reported right end.",
     [{"pkg": "c05", "test": "TestC05",
       "quick": {"checks": 1600, "shards": 8, "timeout": 600},
       "thorough": {"checks": 64000, "shards": 16, "timeout": 5400}},
      {"pkg": "c05", "test": "TestC05Concurrent",
       "quick": {"checks": 480, "shards": 16, "timeout": 900},
       "thorough": {"checks": 16000, "shards": 16, "timeout": 7200}}],
     CACHE_ASSUME, max_inconclusive=0)

prop("C08", "After an unclean stop the disk cache serves only bytes it truly holds", "fault_enumeration",
     "a case = segment size 32..128 x max size x verifyCrc x a write sequence on a real StoreChannel (optional snapshot, appends of 1..2 segments incl. exact segment size +-1, collector passes, a new full sync that breaks in the middle). The directory is copied after every step; from each copy the torn images an ordered-write crash can leave are ENUMERATED: "
     "newest segment truncated to every length 0..size (inside the 16-byte header included), newest segment absent (rotation half done), collector stopped after the snapshot / after each removed segment, snapshot present only as <off>_<size>.rdb.tmp at several lengths and complete-but-not-renamed, and with verifyCrc one altered byte (header crc, header size, first/middle/last data byte) in every closed segment. "
     "Every image is opened by a fresh StoreChannel. evaluations = images judged; non-trivial = distinct sequence for which a torn (not step-boundary) image still served bytes. "
     "Oracle (image truth is read from the files: segment left = file name, data = size-16): StartPoint == GetOffsetRange right; every offset of the reported range lies in a segment of the image; right <= newest held byte; every reader the API hands out for an offset it calls valid returns only bytes equal to the byte function and only bytes the image holds; "
     "a snapshot reader / GetRdb only if the complete <off>_<size>.rdb exists; an altered closed segment is refused or served byte-correct.",
     [{"pkg": "c08", "test": "TestC08",
       "quick": {"checks": 48, "shards": 16, "timeout": 900},
       "thorough": {"checks": 1600, "shards": 16, "timeout": 7200}}],
     CACHE_ASSUME + ["crash model: files are written in order; a crash leaves a prefix of the newest file and complete older files (no reordering of writes across files)"])

prop("C15", "At most one instance holds a source's leader lease at any time", "exploration",
     "a case = 2-5 contenders (each a real Election from cluster.NewRedisCluster(...).NewElection on its own connection to the double) x lease ttl 3-30 s x a sequence of 5-40 actions: campaign, renew, resign, leader query, advance the double's VIRTUAL clock by 0..2 ttl (incl. ttl-1 ms, ttl, ttl+1 ms), make a campaign/renew with a caller deadline (15 ms, as the renew loop does with the renew interval) that the lease store answers 60 ms later (executed; the call may return the late true answer or give up, later calls must still agree with the model), lose the next campaign/renew/resign call of a contender (executed-but-reply-dropped or never executed; the instance then reconnects), stop renewing. "
     "The double executes the tool's own Lua scripts through ref/minilua against its keyspace and clock. non-trivial = distinct case in which leadership was handed over after a lease period elapsed AND a non-holder resigned. "
     "Oracle after EVERY step: reference lease model {holder, expiresAt}; (1) at most one contender believes it holds an unexpired lease (belief = last successful campaign/renew + ttl; resigning ends it); (2) campaign/renew succeeds iff the model says the caller is the holder or no unexpired lease exists; a failed renew is ErrNotLeader; "
     "(3) the lease key on the double (value and expiry) equals the model exactly (so resign deletes only one's own lease, and a holder that stops renewing is gone one ttl after its last success); (4) Leader() names the model's holder; a lost call never reports success. "
     "Second unit: every cluster section accepted by config.InitSyncerConfig (generated leaseTimeout/leaseRenewInterval incl. boundary and absurd values) has renew interval <= timeout/3 and timeout >= 1 s. One step kind ('between') lets another contender's campaign, and a generated amount of time (0 .. 2 lease periods, both sides of the expiry), fall BETWEEN two requests of one call; a call that is a single request (the scripts as they are) has no such moment and the step degenerates to two ordinary calls. For such a step no outcome is predicted (either order is a legal history): what each instance was told is taken as it is, the reference is re-read from the lease store, and the invariants decide (two-leaders, told-leader-without-holding-the-lease).",
     [{"pkg": "c15", "test": "TestC15",
       "quick": {"checks": 2400, "shards": 4, "timeout": 600},
       "thorough": {"checks": 120000, "shards": 16, "timeout": 5400}},
      {"pkg": "c15", "test": "TestC15Config",
       "quick": {"checks": 3000, "shards": 1, "timeout": 300},
       "thorough": {"checks": 100000, "shards": 2, "timeout": 1800}}],
     BASE_ASSUME + ["fake/ double with a virtual clock (SET EX / EXPIRE / GET / DEL semantics and lazy expiry)", "ref/minilua: interpreter for the Lua subset of the two lease scripts; a script outside the subset => inconclusive (exit 2)"])

prop("C17", "Resume bookkeeping maintenance never loses the live resume position", "fault_enumeration",
     "a case = initial target bookkeeping state written with the tool's own field layout (0-5 checkpoint entries of the live id in distinct databases with distinct offsets, with or without mtime = written by SetCheckpoint or by a batch; stale entries of ids no source reports, ages either side of the staleness threshold but >= 2 minutes away from it; business keys in further databases; checkpoint hash) "
     "normalised by one start with the old configuration, x operation {rename of the checkpoint key, move to a new replication id after a failover (source now reports [new, old]), stale-checkpoint gc through the cmd hook with a fake source reporting the ids}. The operation runs uninterrupted (R target requests) and then once for EVERY prefix k in 1..R-1 with the target dying after request k. "
     "non-trivial = distinct case with checkpoints in >= 2 databases, an existing position, and a crash strictly inside the operation. "
     "Oracle: P0 = position a clean start with the old configuration finds on the initial state; P1 = position a clean start with the new configuration (UpdateCheckpoint + GetCheckpoint, as newOutput/StartPoint do) finds on the crashed state (on a clone). P0 none => anything; else P1 exists, P1.offset >= P0.offset and P1.db == P0.db. gc: the newest entry of every id a source still reports survives."
     " Second unit (switching the bidirectional recovery format): the initial state is written by a real bidirectional link that ran in one replay mode (sync: latest records; pipeline / parallel: frontier + commit journal) - initial full sync, 0-5 committed units (single / transactional), stop with or without a frontier flush, optionally a later full resynchronisation; the operation is the next start-up with another replay mode (namespace migration when the recovery family changes); every prefix of its requests is executed and followed by a clean start in the new mode, which must not fail and must find a position >= the one a start in the old mode finds on the initial state."
     " One case in three adds a second source (another shard of the same link, replication ids S/T, reported by a second source double) whose position lives under the same checkpoint key: the operation is carried out for the first source only and the second source's clean start must still find its position (same three comparisons)."
     " Third unit (SetRunId): the move to a new replication id as the running tool does it - RedisOutput.SetRunId with its own repetitions (about 4 s apart); the target connection dies after every prefix of the requests (the target is back 500 ms later), SetRunId finishes by itself, then the clean start with ids [new, previous] is judged; all prefixes of a case run concurrently.",
     [{"pkg": "c17", "test": "TestC17",
       "quick": {"checks": 640, "shards": 16, "timeout": 900},
       "thorough": {"checks": 20000, "shards": 16, "timeout": 7200}},
      {"pkg": "c17", "test": "TestC17Bisync",
       "quick": {"checks": 96, "shards": 16, "timeout": 900},
       "thorough": {"checks": 3200, "shards": 16, "timeout": 7200}},
      {"pkg": "c17", "test": "TestC17SetRunId",
       "quick": {"checks": 32, "shards": 16, "timeout": 900, "shrinktime": "60s"},
       "thorough": {"checks": 960, "shards": 16, "timeout": 7200}}],
     BASE_ASSUME + ["fake/ interpreting double (HSET/HGET/HGETALL/HDEL/EXISTS/INFO keyspace), crash = connection death after the k-th request", "gc reads the wall clock: generated ages keep >= 2 minutes distance from the threshold"])

prop("C06", "Each source (re)connection continues the stream gap-free or takes a snapshot", "exploration",
     "a case = source state (same replication id | failover exposing the previous id and a switch offset | brand-new id; master offset 200-3000; backlog start anywhere; the master keeps producing 40-300 bytes while a replica is attached) x the target's stored position (none | under the current, previous or an unknown id; offset anywhere incl. switch offset +-1, backlog start -2..0, master offset -1..+5) "
     "x cache pre-state produced by the real writers (empty | log only | snapshot + log; labelled and filled with the current, the previous or an unrelated history; range anywhere relative to the position) x backend (disk | memory) x optionally (1 case in 14) a target that is unreachable for the first run-id update, so that the attempt ends between re-labelling the cache and storing the snapshot and the tool reconnects 2 s later (then possibly with a source backlog that reaches back to where the cache ends). The real RedisInput runs against the PSYNC double (admission rule of masterTryPartialResynchronization) with a stub Output that hands out the stored position, adopts the snapshot offset after a snapshot (as sendRdb does) and records every reader it is given. "
     "non-trivial = distinct case in which replay continued from the stored position with a cache range that does not end at that position, or a cached snapshot was replayed. "
     "Oracle: first reader is a log reader => a position was stored, it is a point of the source's current history (current id, or previous id at/below the switch offset), the reader starts exactly there, a CONTINUE was granted, and every delivered byte equals the current history's byte function; first reader is a snapshot => complete, byte-identical to what the source sent (or to the cached snapshot of the current history), followed by a log reader at the snapshot offset with the current history's bytes; PSYNC ? only with -1.",
     [{"pkg": "c06", "test": "TestC06",
       "quick": {"checks": 1600, "shards": 8, "timeout": 900},
       "thorough": {"checks": 48000, "shards": 16, "timeout": 7200}}],
     CACHE_ASSUME + ["fake/Source: PSYNC admission exactly as masterTryPartialResynchronization (offset = replica offset + 1, replid2 valid up to second_replid_offset, backlog window), FULLRESYNC with '\\n' keep-alive, $len snapshot, live stream",
                     "stub Output models RedisOutput.StartPoint/SetRunId/sendRdb bookkeeping"], max_inconclusive=2)

prop("C16", "A follower's cache is a faithful copy of the leader's stream", "exploration",
     "a case = leader cache (disk|memory; log only or snapshot + log; 0-9000 bytes; optionally collected; 0/50/4200 bytes appended live while the follower is attached) x follower pre-state (disk|memory; empty | prefix of the leader's range | equal | ahead | another replication id (unrelated history, or the parent history the leader forked from) with ranges below/overlapping/beyond the leader's | a position older than anything the leader still holds; with or without a snapshot; "
     "fresh process or one whose cache object still remembers the id it followed). Real ReplicaLeader.Handle behind a real gRPC server on loopback, real ReplicaFollower.Run. The uninterrupted session is judged, then the session is repeated for EVERY message index k (1..number of messages, <= 40): the server-side stream fails after k messages, the follower is stopped, judged, restarted on the same cache object against a healthy link and judged again. "
     "One case in four of the same-history kinds additionally has the SOURCE fail over (partial resynchronisation) when the follower's n-th request of the first session arrives (n = 1: before the hand-shake, 2: between hand-shake and data request, 3): the leader then reports [new id, previous id], its cache is re-labelled, a new writer continues at the same offset with bytes of the new history (300 at once, 200 a little later), and after the session the follower reconnects once more. A follower that still carries the previous id may hold bytes of that history only. "
     "non-trivial = distinct case with a non-empty follower pre-state and an interruption after >= 2 messages. "
     "Oracle at every stop: if the follower's cache is labelled with the leader's id, a reader over its whole reported range delivers exactly range-length bytes and every byte equals the leader history's byte function (contiguous, no foreign bytes); a cache under another id must be the untouched pre-state; a follower that holds more than the leader gets ErrLeaderTakeover and keeps its data.",
     [{"pkg": "c16", "test": "TestC16",
       "quick": {"checks": 320, "shards": 16, "timeout": 900},
       "thorough": {"checks": 3200, "shards": 16, "timeout": 7200}}],
     CACHE_ASSUME + ["google.golang.org/grpc loopback transport", "stub Input reporting the leader's replication ids"], max_inconclusive=1)

CLUSTER_ASSUME = BASE_ASSUME + ["fake/ClusterSet: cluster double whose nodes share one slot table and answer MOVED / ASK / TRYAGAIN / CROSSSLOT per the cluster specification (MIGRATING/IMPORTING, one-shot ASKING kept through MULTI, queue-time and EXEC-time checks), keys per ref/keyspec, slots per ref/hashslot; a node executes a command only where the specification lets it", "log-only execution with one cluster-wide request sequence"]

TWOSITE_ASSUME = BASE_ASSUME + ["two real-executing doubles with a master-side propagation stream (SELECT on database change, MULTI/EXEC around transactions, 7.x flavour: relative expiries rewritten to absolute ones and a transaction that propagates a single command is not wrapped; no-op commands are not propagated)", "every propagated command carries the connection that caused it; the harness' clients name their connections, so 'written by the tool' is ground truth", "a key's type is fixed by its name (no cross-site type conflicts, which would stop a link for reasons outside this property); expiries are far in the future; database 0 only", "snapshots are built from the live keyspace image taken atomically with the stream offset"]

prop("C13", "Bidirectional sync never echoes its own writes nor swallows foreign ones", "exploration",
     "a case = propagation flavour {6.x, 7.x} x two links (each: replay mode sync / pipeline / parallel, window 1/4/16, snapshot by RESTORE or by expanded commands) x 0-4 initial keys per site x 2-16 client operations at generated sites (single commands or MULTI/EXEC of 1-4, optionally headed by a marker-shaped SET outside the namespace) over 25 command shapes (SET with PX/EX, SETNX, SETEX, APPEND, MSET, INCR(BY), RPUSH/LPUSH, SADD/SREM, HSET/HDEL, ZADD/ZREM, EXPIRE/PEXPIRE/PERSIST, DEL; many are no-ops depending on state) with values that are marker JSON, marker key names or binary, keys including near misses of the reserved prefixes; the two links are started at generated points of the operation sequence (so that a later link's snapshot contains what the earlier link already wrote), pauses of 0-115 ms (the frontier flush interval is 100 ms). "
     "non-trivial = distinct case in which a link had both a client-originated unit and a mirrored transaction of the opposite link in its source stream. "
     "Oracle (ground truth by originating connection): per link, every stream unit behind the snapshot offset that a client caused is applied at the other site exactly once, as one marker transaction with exactly the propagated commands; no unit the tool caused (mirrored transactions, frontier/journal bookkeeping) is applied at the other site; no bookkeeping key of the snapshot is replayed; every other snapshot key is applied once; after the last client write both streams stop growing within 20 s (350 ms of silence).",
     [{"pkg": "c13", "test": "TestC13",
       "quick": {"checks": 480, "shards": 16, "timeout": 1200},
       "thorough": {"checks": 19200, "shards": 16, "timeout": 14400}}],
     TWOSITE_ASSUME, max_inconclusive=1)

prop("C14", "Bidirectional replay resumes from the contiguous committed prefix", "exploration",
     "a case = target {standalone, 2-3 node cluster with generated bounds} with per-node request latency (0 / 0.3 / 2 / 6 ms, so that lanes complete out of order) x replay mode {sync, pipeline, parallel (0-3 lanes)} x window 1/2/4/16 x stream of 2-14 replay units (single SET or MULTI/EXEC of SETs on one slot, PINGs in between) x 0-2 source pauses (20 / 110 / 130 ms: the frontier is flushed every 100 ms) x 1-4 generated runs plus a final complete run and a final start; one cluster case in four is a lane race (the node owning the first unit is slow, the first run crashes while no frontier is stored), one in six a quiet full resynchronisation history. A run = (re)start {process: fresh output and namespace resolution; input: same output asked again} + StartPoint + Send from the named offset, with the source having produced a generated prefix of the units (possibly nothing new), optionally preceded by a full resynchronisation decided by the source under the same replication id (snapshot taken ahead of what the link replayed, which then counts as applied), ended by {crash: the target processes exactly N more requests counted from the start of Send; crash-start: N requests from the start of the run, start-up recovery included; stop: graceful cancel after N requests; none: everything produced applied, then a 0-230 ms linger}; optionally the n-th journal deletion, or a generated subset of the first 16 journal deletions, is answered with an error (those records survive their collection). fault_points = runs executed. "
     "non-trivial = distinct case in which a start resumed mid-stream after a crash or a mid-way stop. "
     "Oracle (target's execution history; committed(u) = a transaction with u's marker executed): at every start the resume offset is the initial offset or the end of a committed unit, no uncommitted unit ends at or before it, it never decreases from one start to the next, StartPoint/start-up never fail on a healthy target and never fall back to a full sync; sync mode: resume = end of the last committed unit and no unit is committed twice over the whole history; every transaction with business commands is a marker + exactly one unit's commands + that unit's recovery record (latest / journal record + index entry); every stored frontier names a unit boundary with no uncommitted unit at or before it at that moment; after the final complete run every unit was committed at least once.",
     [{"pkg": "c14", "test": "TestC14",
       "quick": {"checks": 320, "shards": 16, "timeout": 1200},
       "thorough": {"checks": 16000, "shards": 16, "timeout": 14400}}],
     CLUSTER_ASSUME + ["a crash is the target (or the link to it) dying after exactly N processed requests with its state intact; it also stands for the tool being killed at that moment", "the initial full synchronisation replays an empty snapshot taken at offset 1000", "streams use database 0 only"], max_inconclusive=1)

prop("C18", "Cluster-mode bidirectional units are single-slot or refused, never best-effort", "exploration",
     "a case = 1-3 node cluster with generated slot bounds x replay mode {sync, pipeline, parallel (1-3 lanes)} x window 1/2/8 x optional prefix blacklist (1-3 of 7 prefixes that cut keys out of transactions) x stream of 1-10 source units (single commands and MULTI/EXEC of 1-4 commands, PINGs in between) over 31 command shapes of the reference key table (1-key, 2-key, n-key, STORE destinations, numkeys layouts, and the option-dependent write forms GEORADIUS / GEORADIUSBYMEMBER ... STORE|STOREDIST and SORT ... STORE with the option given once or twice, resolved as the server's getkeys procedures do: last one wins, options only behind the fixed arguments) with keys in 9 hash-tag shapes per tag (10 tags, four of them non-ASCII: multi-byte UTF-8 and invalid UTF-8) and 10 'exotic' brace arrangements (empty tag, unclosed, nested, second tag, binary bytes, empty key); one case in three carries one unit with mixed-slot keys or a command whose keys cannot be determined (unknown name, malformed numkeys). "
     "non-trivial = distinct case with a unit of >= 2 keys or a unit that must be refused. "
     "Oracle: reference slot function (bitwise CRC16 + hash-tag rule) over the keys of the reference key-position table, applied (a) to every MULTI...EXEC any node received, executed or not, control keys included: exactly one slot, starts with a marker whose end offset names a source unit, carries exactly that unit's commands after the reference filter projection, marker slot = slot of the marker key; (b) to the source: the first unit whose keys span slots or are undeterminable must make Send return an error by itself with no transaction for it or anything behind it received by any node; a stream without such a unit must reach its end with every single-slot unit replayed and no error.",
     [{"pkg": "c18", "test": "TestC18",
       "quick": {"checks": 640, "shards": 16, "timeout": 900},
       "thorough": {"checks": 25600, "shards": 16, "timeout": 7200}}],
     CLUSTER_ASSUME + ["COMMAND GETKEYS of the double answers from the reference key table and rejects unknown commands the way a Redis node does", "unknown commands are not combined with key filters (the filter's behaviour for a command without key positions is outside this property)", "streams use database 0 only"], max_inconclusive=1)

prop("C19", "Cluster replay reaches each key's slot owner and keeps per-key order", "exploration",
     "a case = 2-4 node layout with generated slot bounds x per-node reply latency (0 / 0.2 / 1.5 / 5 ms) x batch size 1-50 x {blocking, pipelined} x {ticker-driven (redirections handled), transactional (redirection => reported restart)} x stream of 3-40 writes over 15 pool keys (SET with a unique value; MSET over all pool keys of one slot) x 0-4 migration events (slot of a pool key: MIGRATING/IMPORTING with a generated subset of keys already moved => ASK, finish => MOVED, direct ownership move) fired when the cluster has processed a generated number of requests (between or in the middle of batches); one case in six is the scripted history 'a node that owns a single slot receives a slot, loses everything, gets a slot back', one in eight 'the slot is handed to a node that refuses connections' (MOVED names an unreachable address), one in eight 'the topology refresh triggered by a MOVED reply lands while the next batch is being built' (blocking sending, slow CLUSTER SLOTS, a command unknown to the key tables - COMMAND GETKEYS round trip - between two writes on the migrating key). "
     "non-trivial = distinct case in which a MOVED/ASK reply occurred and the replay touched >= 2 nodes. "
     "Oracle: the double executes a command only at the node entitled to it, so ownership is by construction; per key the sequence of values that took effect (cluster-wide order) must follow the source order with rewinds only (no write takes effect before its predecessor, none invented); unless Send reported an error every key ends at its last source value (no silent loss); transactional mode: no value takes effect twice within the run, whether or not Send reported an error.",
     [{"pkg": "c19", "test": "TestC19",
       "quick": {"checks": 320, "shards": 16, "timeout": 900},
       "thorough": {"checks": 12800, "shards": 16, "timeout": 7200}}],
     CLUSTER_ASSUME, max_inconclusive=1)
