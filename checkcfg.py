"""Per-property configuration of ./check: which test functions decide the
property, case counts and shards per tier, evidence texts."""

PROPS = {}


def prop(id, title, level, rule, units, assumptions=(), max_inconclusive=0):
    PROPS[id] = {"id": id, "title": title, "level": level, "rule": rule, "units": units,
                 "assumptions": list(assumptions), "max_inconclusive": max_inconclusive}


BASE_ASSUME = ["Go toolchain and runtime", "pgregory.net/rapid v1.3.0 generators/shrinker"]

prop("C11", "Key-to-slot computation agrees with Redis Cluster for every key", "exploration",
     "keys are byte strings built from brace-heavy tokens ('{','}','{}','{{','}{', letters, NUL, 0xFF, invalid UTF-8, CRLF) "
     "plus an occasional 0-300 byte random tail; each key is one case; non-trivial = the key contains at least two brace characters; "
     "distinct = distinct key bytes (sha1 of the case JSON). Oracle: ref/hashslot (bitwise CRC16/XMODEM over first-'{'..first-following-'}' tag if non-empty) "
     "compared with redis.KeyToSlot, cluster.GetSlot (string and []byte) and RangeList.IsSlotInList for singleton ranges [s,s] (must accept) and [s+1,s+1] (must reject).",
     [{"pkg": "c11", "test": "TestC11",
       "quick": {"checks": 200000, "shards": 4, "timeout": 300},
       "thorough": {"checks": 20000000, "shards": 16, "timeout": 1500},
       "fuzz": [{"target": "FuzzC11", "time": "90s", "timeout": 400}]}],
     BASE_ASSUME + ["ref/hashslot written from the cluster specification; unit-checked against CRC16('123456789')=0x31C3 and CLUSTER KEYSLOT examples"])
