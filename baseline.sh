#!/bin/bash
# Runs the repository's pinned suite with the verif tag OFF and compares with BASELINE.json's stable_pass list.
# usage: baseline.sh [repo-dir] [pkg-pattern...]
REPO=${1:-/repo}; shift
PK=${@:-./...}
export GOFLAGS=-mod=mod GOPROXY=off GOSUMDB=off GOTOOLCHAIN=local
OUT=$(mktemp /tmp/baseline.XXXXXX.json)
(cd $REPO && go test -mod=mod -json -vet=off -count=1 -timeout 25m $PK) > $OUT 2>/dev/null
python3 - "$OUT" "$PK" <<'PY'
import json,sys
res={}
for l in open(sys.argv[1]):
    try: e=json.loads(l)
    except: continue
    if e.get('Action') in('pass','fail','skip') and e.get('Test'):
        res[e['Package']+'::'+e['Test']]=e['Action']
b=json.load(open('/root/.vp/BASELINE.json'))
want=b['stable_pass']
pk=sys.argv[2]
pkgs=set(k.split('::')[0] for k in res)
bad=[w for w in want if w.split('::')[0] in pkgs and res.get(w)!='pass']
print("ran",len(res),"stable_pass in scope",sum(1 for w in want if w.split('::')[0] in pkgs),"not passing:",len(bad))
for x in bad[:40]: print("  ",x,res.get(x))
sys.exit(1 if bad else 0)
PY
rc=$?; rm -f $OUT; (cd $REPO && git checkout -- go.sum go.mod 2>/dev/null); exit $rc
