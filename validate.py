#!/opt/veriftools/pyvenv/bin/python
import json, jsonschema, glob, sys
jsonschema.validate(json.load(open('/verif/MANIFEST.json')), json.load(open('/root/.vp/MANIFEST.schema.json')))
print('manifest ok')
s = json.load(open('/root/.vp/EVIDENCE.schema.json'))
for f in sorted(glob.glob('/verif/evidence/*.json')):
    try:
        jsonschema.validate(json.load(open(f)), s); print(f, 'ok')
    except Exception as e:
        print(f, 'INVALID', str(e)[:300]); sys.exit(1)
# the per-property table of the driver: a misplaced comma in a prop(...) call silently shifts its arguments
sys.path.insert(0, '/verif')
import checkcfg
for k, p in checkcfg.PROPS.items():
    assert isinstance(p['rule'], str) and isinstance(p['units'], list) and isinstance(p['assumptions'], list) and isinstance(p['max_inconclusive'], int), 'checkcfg.py: arguments of prop(%s) are shifted' % k
    for u in p['units']:
        assert {'pkg', 'test', 'quick', 'thorough'} <= set(u), 'checkcfg.py: unit of %s incomplete' % k
print('checkcfg ok')
