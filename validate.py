#!/opt/veriftools/pyvenv/bin/python
import json, jsonschema, glob, sys
jsonschema.validate(json.load(open('/verif/MANIFEST.json')), json.load(open('/root/.vp/MANIFEST.schema.json')))
print('manifest ok')
s = json.load(open('/root/.vp/EVIDENCE.schema.json'))
for f in sorted(glob.glob('/verif/evidence/*.json')):
    try:
        jsonschema.validate(json.load(open(f)), s); print(f, 'ok')
    except Exception as e:
        print(f, 'INVALID', str(e)[:300]); sys.exit(1)
