#!/usr/bin/env python3
# rewrites the tables of DESIGN.md section 9.2 / 9.3 from known_findings.json and the seed table of 9.5 from seeded/*/meta.json
import json, os, subprocess
here = os.path.dirname(os.path.abspath(__file__))
k = json.load(open(os.path.join(here, "known_findings.json")))
rows = []
for e in k:
    if e["status"] != "fixed":
        continue
    w = e["what"]
    pre = "fixed: property=%s %s " % (e["property"], e["commit"])
    txt = w[len(pre):] if w.startswith(pre) else w
    rows.append("| %s | `%s` | `%s` | %s |" % (e["property"], e["commit"], e["signature"][:60], txt.replace("|", "/").replace("\n", " ")))
opens = ["* **%s `%s`** — %s" % (e["property"], e["signature"], e["what"]) for e in k if e["status"] == "open"]
p = os.path.join(here, "DESIGN.md")
t = open(p).read()
head = "| property | commit | signature | what failed |\n|---|---|---|---|\n"
i = t.index(head) + len(head)
j = t.index("\n\n", i)
t = t[:i] + "\n".join(rows) + t[j:]
a = t.index("### 9.3 Open known findings")
b = t.index("\n\n", a) + 2
c = t.index("\n\nEach is identified by its signature", b)
t = t[:b] + "\n".join(opens) + t[c:]
open(p, "w").write(t)
subprocess.run(["python3", os.path.join(here, "seeded", "table.py"), "--write"])
